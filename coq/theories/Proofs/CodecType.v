(* Lemmas for C11, group 2 (datatype message). *)
From HV Require Import Base.Prelude Base.Outcome Base.Bytes Model.CodecType.

(* ---- bit packing of class | version<<4 | cbf<<8 ---- *)

Lemma land_low_shiftl a b k : a < 2 ^ k -> N.land a (N.shiftl b k) = 0.
Proof.
  intros Ha. apply N.bits_inj. intros n. rewrite N.land_spec, N.bits_0.
  destruct (N.ltb_spec n k) as [Hn|Hn].
  - rewrite N.shiftl_spec_low by auto. apply andb_false_r.
  - replace (N.testbit a n) with false; [reflexivity|].
    symmetry. destruct (N.eq_dec a 0) as [->|Hz]; [apply N.bits_0|].
    apply N.bits_above_log2. apply N.log2_lt_pow2; [lia|].
    eapply N.lt_le_trans; [exact Ha|]. apply N.pow_le_mono_r; lia.
Qed.

Lemma lor_shiftl_add a b k : a < 2 ^ k -> N.lor a (N.shiftl b k) = a + b * 2 ^ k.
Proof.
  intros Ha. rewrite <- N.lxor_lor by (apply land_low_shiftl; auto).
  rewrite <- N.add_nocarry_lxor by (apply land_low_shiftl; auto).
  now rewrite N.shiftl_mul_pow2.
Qed.

Lemma dt_word_arith c v b : c < 16 -> v < 16 -> b < 16777216 ->
  dt_word c v b = c + 16 * v + 256 * b.
Proof.
  intros Hc Hv Hb. unfold dt_word, wrap32.
  rewrite !N.shiftl_mul_pow2.
  change (2 ^ 4) with 16. change (2 ^ 8) with 256.
  rewrite (N.mod_small (v * 16)) by lia. rewrite (N.mod_small (b * 256)) by lia.
  replace (v * 16) with (N.shiftl v 4) by (rewrite N.shiftl_mul_pow2; reflexivity).
  rewrite lor_shiftl_add by (change (2 ^ 4) with 16; lia).
  replace (b * 256) with (N.shiftl b 8) by (rewrite N.shiftl_mul_pow2; reflexivity).
  rewrite lor_shiftl_add by (change (2 ^ 4) with 16; change (2 ^ 8) with 256; lia).
  change (2 ^ 4) with 16. change (2 ^ 8) with 256. lia.
Qed.

Lemma dt_word_fields c v b : c < 16 -> v < 16 -> b < 16777216 ->
  let w := dt_word c v b in
  w < 4294967296 /\ N.land w 15 = c /\ N.land (N.shiftr w 4) 15 = v /\
  N.land (N.shiftr w 8) 16777215 = b.
Proof.
  intros Hc Hv Hb w. subst w. rewrite dt_word_arith by auto.
  change 15 with (N.ones 4). change 16777215 with (N.ones 24).
  rewrite !N.land_ones, !N.shiftr_div_pow2.
  change (2 ^ 4) with 16. change (2 ^ 8) with 256. change (2 ^ 24) with 16777216.
  repeat split; lia.
Qed.

(* ---- slicing after a prefix ---- *)

Lemma slice_prefix_firstn pre P n : n <= blen P ->
  slice (pre ++ P) (blen pre) (blen pre + n) = Ok (firstn (N.to_nat n) P).
Proof.
  intros Hn. rewrite <- (firstn_skipn (N.to_nat n) P) at 1.
  apply slice_app'; [reflexivity|].
  f_equal. unfold blen in *. rewrite firstn_length. blia.
Qed.

Lemma slice_prefix_firstn' pre P a n : a = blen pre -> n <= blen P ->
  slice (pre ++ P) a (a + n) = Ok (firstn (N.to_nat n) P).
Proof. intros -> H. now apply slice_prefix_firstn. Qed.

Lemma blen_dt_header c v b s : blen (dt_header c v b s) = 8.
Proof. unfold dt_header. rewrite blen_app, !blen_le. reflexivity. Qed.

(* the class-dependent properties length of ParseDatatypeMessage *)
Definition plen (fuel : nat) (c v : N) (P : bytes) : outcome N :=
  if c =? DT_FIXED then Ok 4
  else if c =? DT_FLOAT then Ok 12
  else if c =? DT_BITFIELD then Ok 4
  else if c =? DT_TIME then Ok 2
  else if c =? DT_COMPOUND then
    match compound_props_len (dec_dt fuel) P v with
    | Ok n => Ok n
    | Err => Ok (blen P)
    | Panic => Panic
    end
  else Ok (blen P).

Lemma dec_dt_header fuel c v b size P :
  c < 16 -> v < 16 -> b < 16777216 -> size < 4294967296 ->
  dec_dt (S fuel) (dt_header c v b size ++ P) =
  obind (plen fuel c v P) (fun n =>
    let n := if blen P <? n then blen P else n in
    Ok {| dt_class := c; dt_version := v; dt_size := size; dt_cbf := b;
          dt_props := firstn (N.to_nat n) P |}).
Proof.
  intros Hc Hv Hb Hs.
  destruct (dt_word_fields c v b Hc Hv Hb) as (Hw & H1 & H2 & H3).
  assert (R0 : rd_le (dt_header c v b size ++ P) 0 4 = Ok (dt_word c v b)).
  { unfold dt_header. rewrite <- app_assoc. apply (rd_le_head 4 4); auto. }
  assert (R4 : rd_le (dt_header c v b size ++ P) 4 4 = Ok size).
  { unfold dt_header. rewrite <- app_assoc. apply (rd_le_at (le 4 (dt_word c v b)) 4 4 size P 4); auto. }
  cbn [dec_dt]. rewrite R0, R4. cbn [obind]. rewrite H1, H2, H3.
  rewrite blen_app, blen_dt_header.
  replace (8 + blen P <? 8) with false by (symmetry; apply N.ltb_ge; blia).
  replace (8 + blen P - 8) with (blen P) by blia.
  unfold plen.
  destruct (c =? DT_FIXED); [|destruct (c =? DT_FLOAT); [|destruct (c =? DT_BITFIELD);
    [|destruct (c =? DT_TIME); [|destruct (c =? DT_COMPOUND)]]]]; cbn [obind].
  all: try (rewrite slice_from_app by (rewrite blen_dt_header; reflexivity); cbn [obind];
            destruct (compound_props_len (dec_dt fuel) P v) as [n| |]; cbn [obind]; [| |reflexivity]).
  all: match goal with
       | |- context [if 8 + blen ?Q <? 8 + ?n then _ else _] =>
           replace (8 + blen Q <? 8 + n) with (blen Q <? n)
             by (destruct (N.ltb_spec (blen Q) n), (N.ltb_spec (8 + blen Q) (8 + n)); auto; blia);
           destruct (N.ltb_spec (blen Q) n)
       end.
  all: match goal with
       | |- context [slice (dt_header ?c ?v ?b ?s ++ ?Q) 8 _] =>
           rewrite (slice_prefix_firstn' (dt_header c v b s) Q 8)
             by (rewrite ?blen_dt_header; blia); reflexivity
       end.
Qed.

Lemma firstn_blen (P : bytes) : firstn (N.to_nat (blen P)) P = P.
Proof. unfold blen. rewrite Nat2N.id. apply firstn_all. Qed.

(* ---- the round trip, class by class ---- *)

Lemma class_cases c :
  (if c =? DT_FIXED then true else if c =? DT_FLOAT then true else if c =? DT_STRING then true
   else if c =? DT_REFERENCE then true else if c =? DT_OPAQUE then true
   else if c =? DT_COMPOUND then true else if c =? DT_VLEN then true else false) = true ->
  c = 0 \/ c = 1 \/ c = 3 \/ c = 7 \/ c = 5 \/ c = 6 \/ c = 9.
Proof.
  unfold DT_FIXED, DT_FLOAT, DT_STRING, DT_REFERENCE, DT_OPAQUE, DT_COMPOUND, DT_VLEN.
  destruct (N.eqb_spec c 0); [auto|]. destruct (N.eqb_spec c 1); [auto|].
  destruct (N.eqb_spec c 3); [auto|]. destruct (N.eqb_spec c 7); [auto 6|].
  destruct (N.eqb_spec c 5); [auto 6|]. destruct (N.eqb_spec c 6); [auto 7|].
  destruct (N.eqb_spec c 9); [auto 8|]. discriminate.
Qed.

Lemma pad8_ge n : n <= pad8 n.
Proof. unfold pad8. lia. Qed.

Lemma datatype_roundtrip_gen rep x : wf_datatype x = true ->
  dec_datatype (enc_datatype_gen rep x) = Ok (proj_datatype x).
Proof.
  unfold wf_datatype. intros H.
  apply andb_true_iff in H as [H Hopq]. apply andb_true_iff in H as [H Hcmp].
  apply andb_true_iff in H as [H Hbytes]. apply andb_true_iff in H as [H Hcbf].
  apply andb_true_iff in H as [H Hsize]. apply andb_true_iff in H as [Hok Hnv].
  apply N.ltb_lt in Hcbf, Hsize. apply negb_true_iff, N.eqb_neq in Hnv.
  unfold encok_datatype in Hok. apply andb_true_iff in Hok as [Hs0 Hok].
  destruct x as [c v size b P]; cbn [dt_class dt_version dt_size dt_cbf dt_props] in *.
  assert (Hc : c = 0 \/ c = 1 \/ c = 3 \/ c = 7 \/ c = 5 \/ c = 6 \/ c = 9).
  { apply class_cases.
    unfold DT_FIXED, DT_FLOAT, DT_STRING, DT_REFERENCE, DT_OPAQUE, DT_COMPOUND, DT_VLEN in *.
    destruct (c =? 0); auto. destruct (c =? 1); auto. destruct (c =? 3); auto.
    destruct (c =? 7); auto. destruct (c =? 5); auto. destruct (c =? 6); auto. }
  unfold dec_datatype.
  destruct Hc as [-> | [-> | [-> | [-> | [-> | [-> | ->]]]]]]; [| | | | | |exfalso; apply Hnv; reflexivity];
    unfold enc_datatype_gen, proj_datatype; cbn [dt_class dt_version dt_size dt_cbf dt_props];
    cbv [DT_FIXED DT_FLOAT DT_STRING DT_REFERENCE DT_OPAQUE DT_COMPOUND DT_VLEN] in *;
    cbn [N.eqb Pos.eqb orb] in *.
  - (* fixed *)
    cbn [length app]. rewrite dec_dt_header by (auto; lia). reflexivity.
  - (* float *)
    cbn [length app]. rewrite dec_dt_header by (auto; lia). reflexivity.
  - (* string *)
    cbn [length app]. rewrite dec_dt_header by (auto; lia). reflexivity.
  - (* reference *)
    rewrite <- (app_nil_r (dt_header 7 1 b size)) at 2.
    cbn [length app]. rewrite dec_dt_header by (auto; lia). reflexivity.
  - (* opaque *)
    apply N.ltb_lt in Hopq.
    assert (Hw : wrap32 (pad8 (blen P)) = pad8 (blen P)) by (unfold wrap32; apply N.mod_small; lia).
    rewrite Hw. cbn [length]. rewrite dec_dt_header by (auto; lia).
    unfold plen. cbv [DT_FIXED DT_FLOAT DT_BITFIELD DT_TIME DT_COMPOUND]. cbn [N.eqb Pos.eqb obind].
    rewrite N.ltb_irrefl. rewrite firstn_blen. reflexivity.
  - (* compound *)
    apply andb_true_iff in Hcmp as [Hv Hex]. apply N.ltb_lt in Hv.
    unfold compound_props_exact in Hex. cbn [dt_props dt_version] in Hex.
    rewrite app_length. replace (length (dt_header 6 v b size)) with 8%nat
      by (pose proof (blen_dt_header 6 v b size) as E; unfold blen in E; blia).
    rewrite dec_dt_header by (auto; lia).
    unfold plen. cbv [DT_FIXED DT_FLOAT DT_BITFIELD DT_TIME DT_COMPOUND]. cbn [N.eqb Pos.eqb].
    destruct (compound_props_len (dec_dt (8 + length P)) P v) as [n| |]; [| |discriminate]; cbn [obind].
    + apply N.eqb_eq in Hex. subst n. rewrite N.ltb_irrefl, firstn_blen. reflexivity.
    + rewrite N.ltb_irrefl, firstn_blen. reflexivity.
Qed.

Lemma datatype_roundtrip x : wf_datatype x = true ->
  dec_datatype (enc_datatype x) = Ok (proj_datatype x).
Proof. apply datatype_roundtrip_gen. Qed.

Lemma datatype_blen_gen rep x : wf_datatype x = true -> blen (enc_datatype_gen rep x) = size_datatype_gen rep x.
Proof.
  unfold wf_datatype. intros H.
  apply andb_true_iff in H as [H Hopq]. apply andb_true_iff in H as [H Hcmp].
  apply andb_true_iff in H as [H Hbytes]. apply andb_true_iff in H as [H Hcbf].
  apply andb_true_iff in H as [H Hsize]. apply andb_true_iff in H as [Hok Hnv].
  apply negb_true_iff, N.eqb_neq in Hnv.
  unfold encok_datatype in Hok. apply andb_true_iff in Hok as [Hs0 Hok].
  destruct x as [c v size b P]; cbn [dt_class dt_version dt_size dt_cbf dt_props] in *.
  assert (Hc : c = 0 \/ c = 1 \/ c = 3 \/ c = 7 \/ c = 5 \/ c = 6 \/ c = 9).
  { apply class_cases.
    unfold DT_FIXED, DT_FLOAT, DT_STRING, DT_REFERENCE, DT_OPAQUE, DT_COMPOUND, DT_VLEN in *.
    destruct (c =? 0); auto. destruct (c =? 1); auto. destruct (c =? 3); auto.
    destruct (c =? 7); auto. destruct (c =? 5); auto. destruct (c =? 6); auto. }
  destruct Hc as [-> | [-> | [-> | [-> | [-> | [-> | ->]]]]]]; [| | | | | |exfalso; apply Hnv; reflexivity];
    unfold enc_datatype_gen, size_datatype_gen; cbn [dt_class dt_version dt_size dt_cbf dt_props];
    cbv [DT_FIXED DT_FLOAT DT_STRING DT_REFERENCE DT_OPAQUE DT_COMPOUND DT_VLEN] in *;
    cbn [N.eqb Pos.eqb orb] in *;
    rewrite ?blen_app, ?blen_dt_header, ?blen_zeros; try reflexivity.
  all: try (unfold numeric_props; cbv [DT_FLOAT]; cbn [N.eqb Pos.eqb]; reflexivity).
  all: pose proof (pad8_ge (blen P)); blia.
Qed.

Lemma datatype_blen x : wf_datatype x = true -> blen (enc_datatype x) = size_datatype x.
Proof. apply datatype_blen_gen. Qed.

(* variable-length types under the repaired header layout *)
Lemma vlen_repaired_roundtrip x : wf_vlen x = true ->
  dec_datatype (enc_datatype_gen true x) = Ok (proj_vlen x).
Proof.
  unfold wf_vlen. intros H.
  apply andb_true_iff in H as [H Hcbf]. apply andb_true_iff in H as [H Hsize].
  apply andb_true_iff in H as [Hc Hs0]. apply N.eqb_eq in Hc. apply N.ltb_lt in Hcbf, Hsize.
  destruct x as [c v size b P]; cbn [dt_class dt_version dt_size dt_cbf dt_props] in *. subst c.
  unfold dec_datatype, enc_datatype_gen, proj_vlen. cbn [dt_class dt_version dt_size dt_cbf dt_props].
  cbv [DT_FIXED DT_FLOAT DT_STRING DT_REFERENCE DT_OPAQUE DT_COMPOUND DT_VLEN vlen_repaired_version].
  cbn [N.eqb Pos.eqb orb]. cbn [length].
  rewrite dec_dt_header by (auto; lia).
  unfold plen. cbv [DT_FIXED DT_FLOAT DT_BITFIELD DT_TIME DT_COMPOUND]. cbn [N.eqb Pos.eqb obind].
  rewrite N.ltb_irrefl, firstn_blen. reflexivity.
Qed.

(* the encoder of the tree under test (vlen_header_repaired = true) *)
Lemma vlen_roundtrip x : wf_vlen x = true -> dec_datatype (enc_datatype x) = Ok (proj_vlen x).
Proof. exact (vlen_repaired_roundtrip x). Qed.

(* D10: the variable-length datatype header as written before 71914eb does not survive decode(encode x) *)
Lemma vlen_refuted :
  exists x, dt_class x = DT_VLEN /\ encok_datatype x = true /\
            match dec_datatype (enc_datatype_gen false x) with
            | Ok y => transported x y = false
            | _ => True
            end.
Proof. exists vlen_witness. vm_compute. repeat split. Qed.
