(* C09 at file level, worked examples (documentation of behaviour; every Example is closed by computation).

   ONE file: the image that the writer produces for /d (name [100]), int32 (FileImage.dtype_of_code 2: class 0, size 4,
   class bit field 8), dims [4; 6], elements 0..23 little-endian.  On it the I/O program of ReadHyperslab / ReadSlice
   (Model/IOProgSlice.v: which bytes are read) is run, its result is turned into values by SliceRefine.slice_value, and
   that is compared with the selection of the full read (Model/Hyperslab.v, Hs.select over SliceRefine.evals).
   The three contiguous paths appear: per-element reads (SlElems, rank 2), one exact run (SlRun), the run from the first to
   the last selected element (SlSpan, rank 3: the same 24 elements with dims [2; 3; 4]).  Rejections: leaving the dataset,
   uint64 wrap-around of start + count, wrong rank, and an element size other than 4 / 8. *)
From HV Require Import Base.Prelude Base.Outcome Base.Bytes Model.IOProg Model.IOProgReader Model.IOProgSlice Model.FileImage Model.SliceRefine.

(* elements 0..23, four bytes each, little-endian *)
Definition ex_data : bytes := flat_map (fun i => [i; 0; 0; 0]) (Hs.nrange 24).
Definition ex_img : bytes := image_v2 [100] 0 4 8 [4; 6] ex_data.
Definition ex_img3 : bytes := image_v2 [100] 0 4 8 [2; 3; 4] ex_data.

Example ex_image_size : (blen ex_img, dset_addr ex_data) = (2553, 2291).
Proof. vm_compute. reflexivity. Qed.
Example ex_full_read : evals 4 ex_data = Hs.nrange 24.
Proof. vm_compute. reflexivity. Qed.

(* ------------------------------------------------------------------ rank 2, stride and block: one ReadAt per element *)
Definition ex_sel_2d : selection :=
  {| s_start := [0; 1]; s_count := [2; 2]; s_stride := Some [2; 3]; s_block := Some [2; 2] |}.
Definition ex_sd_2d : slicedata :=
  SlElems [[1; 0; 0; 0]; [2; 0; 0; 0]; [4; 0; 0; 0]; [5; 0; 0; 0]; [7; 0; 0; 0]; [8; 0; 0; 0]; [10; 0; 0; 0]; [11; 0; 0; 0];
           [13; 0; 0; 0]; [14; 0; 0; 0]; [16; 0; 0; 0]; [17; 0; 0; 0]; [19; 0; 0; 0]; [20; 0; 0; 0]; [22; 0; 0; 0]; [23; 0; 0; 0]].

Example ex_hyperslab_2d :
  run0 ex_img (api_read_hyperslab SBI 64 (dset_addr ex_data) ex_sel_2d) = Ok ex_sd_2d
  /\ slice_value 4 [4; 6] [] (Hs.axes_of (hsel_of ex_sel_2d) 2) ex_sd_2d
     = [1; 2; 4; 5; 7; 8; 10; 11; 13; 14; 16; 17; 19; 20; 22; 23]
  /\ Hs.select (evals 4 ex_data) [4; 6] (Hs.axes_of (hsel_of ex_sel_2d) 2)
     = [1; 2; 4; 5; 7; 8; 10; 11; 13; 14; 16; 17; 19; 20; 22; 23]
  /\ Hs.read_hyperslab Hs.Contiguous (evals 4 ex_data) [4; 6] (hsel_of ex_sel_2d)
     = Some [1; 2; 4; 5; 7; 8; 10; 11; 13; 14; 16; 17; 19; 20; 22; 23].
Proof. vm_compute. repeat split; reflexivity. Qed.

(* ------------------------------------------------------------------ two complete rows: one read of exactly the selection *)
Definition ex_sel_run : selection := {| s_start := [1; 0]; s_count := [2; 6]; s_stride := None; s_block := None |}.
Definition ex_sd_run : slicedata :=
  SlRun [6; 0; 0; 0; 7; 0; 0; 0; 8; 0; 0; 0; 9; 0; 0; 0; 10; 0; 0; 0; 11; 0; 0; 0;
         12; 0; 0; 0; 13; 0; 0; 0; 14; 0; 0; 0; 15; 0; 0; 0; 16; 0; 0; 0; 17; 0; 0; 0].

Example ex_hyperslab_run :
  run0 ex_img (api_read_hyperslab SBI 64 (dset_addr ex_data) ex_sel_run) = Ok ex_sd_run
  /\ slice_value 4 [4; 6] [] (Hs.axes_of (hsel_of ex_sel_run) 2) ex_sd_run = [6; 7; 8; 9; 10; 11; 12; 13; 14; 15; 16; 17]
  /\ Hs.select (evals 4 ex_data) [4; 6] (Hs.axes_of (hsel_of ex_sel_run) 2) = [6; 7; 8; 9; 10; 11; 12; 13; 14; 15; 16; 17].
Proof. vm_compute. repeat split; reflexivity. Qed.

(* ------------------------------------------------------------------ rank 3, strided: the run from the first (1) to the last
   (23) selected element is read, the selection is extracted from it *)
Definition ex_sel_span : selection :=
  {| s_start := [0; 0; 1]; s_count := [2; 2; 2]; s_stride := Some [1; 2; 2]; s_block := None |}.
Definition ex_sd_span : slicedata :=
  SlSpan (flat_map (fun i => [i + 1; 0; 0; 0]) (Hs.nrange 23)).

Example ex_hyperslab_span :
  run0 ex_img3 (api_read_hyperslab SBI 64 (dset_addr ex_data) ex_sel_span) = Ok ex_sd_span
  /\ slice_value 4 [2; 3; 4] [] (Hs.axes_of (hsel_of ex_sel_span) 3) ex_sd_span = [1; 3; 9; 11; 13; 15; 21; 23]
  /\ Hs.select (evals 4 ex_data) [2; 3; 4] (Hs.axes_of (hsel_of ex_sel_span) 3) = [1; 3; 9; 11; 13; 15; 21; 23]
  /\ Hs.read_hyperslab Hs.Contiguous (evals 4 ex_data) [2; 3; 4] (hsel_of ex_sel_span) = Some [1; 3; 9; 11; 13; 15; 21; 23].
Proof. vm_compute. repeat split; reflexivity. Qed.

(* ------------------------------------------------------------------ rejections *)
(* rows 3 and 4 of a dataset with 4 rows *)
Example ex_oob :
  run0 ex_img (api_read_hyperslab SBI 64 (dset_addr ex_data)
                 {| s_start := [3; 0]; s_count := [2; 6]; s_stride := None; s_block := None |}) = Err
  /\ run0 ex_img (api_read_slice SBI 64 (dset_addr ex_data) [3; 0] [2; 6]) = Err
  /\ Hs.read_hyperslab Hs.Contiguous (evals 4 ex_data) [4; 6] (Hs.mkSel [3; 0] [2; 6] None None) = None
  /\ Hs.read_slice Hs.Contiguous (evals 4 ex_data) [4; 6] [3; 0] [2; 6] = None.
Proof. vm_compute. repeat split; reflexivity. Qed.

(* start + count = 2^64 + 1 wraps to 1 in uint64 arithmetic: still rejected, by both entry points *)
Example ex_wrap :
  run0 ex_img (api_read_hyperslab SBI 64 (dset_addr ex_data)
                 {| s_start := [18446744073709551615; 0]; s_count := [2; 1]; s_stride := None; s_block := None |}) = Err
  /\ run0 ex_img (api_read_slice SBI 64 (dset_addr ex_data) [18446744073709551615; 0] [2; 1]) = Err
  /\ Hs.read_hyperslab Hs.Contiguous (evals 4 ex_data) [4; 6] (Hs.mkSel [18446744073709551615; 0] [2; 1] None None) = None
  /\ Hs.read_slice Hs.Contiguous (evals 4 ex_data) [4; 6] [18446744073709551615; 0] [2; 1] = None.
Proof. vm_compute. repeat split; reflexivity. Qed.

(* a rank-1 selection on the rank-2 dataset *)
Example ex_rank :
  run0 ex_img (api_read_hyperslab SBI 64 (dset_addr ex_data)
                 {| s_start := [1]; s_count := [2]; s_stride := None; s_block := None |}) = Err
  /\ run0 ex_img (api_read_slice SBI 64 (dset_addr ex_data) [1] [2]) = Err
  /\ Hs.read_hyperslab Hs.Contiguous (evals 4 ex_data) [4; 6] (Hs.mkSel [1] [2] None None) = None
  /\ Hs.read_slice Hs.Contiguous (evals 4 ex_data) [4; 6] [1] [2] = None.
Proof. vm_compute. repeat split; reflexivity. Qed.

(* ------------------------------------------------------------------ ReadSlice: rows 1..2, columns 2..4 *)
Definition ex_sd_slice : slicedata :=
  SlElems [[8; 0; 0; 0]; [9; 0; 0; 0]; [10; 0; 0; 0]; [14; 0; 0; 0]; [15; 0; 0; 0]; [16; 0; 0; 0]].

Example ex_slice :
  run0 ex_img (api_read_slice SBI 64 (dset_addr ex_data) [1; 2] [2; 3]) = Ok ex_sd_slice
  /\ slice_value 4 [4; 6] [] (Hs.slice_axes [1; 2] [2; 3]) ex_sd_slice = [8; 9; 10; 14; 15; 16]
  /\ Hs.select (evals 4 ex_data) [4; 6] (Hs.slice_axes [1; 2] [2; 3]) = [8; 9; 10; 14; 15; 16]
  /\ Hs.read_slice Hs.Contiguous (evals 4 ex_data) [4; 6] [1; 2] [2; 3] = Some [8; 9; 10; 14; 15; 16].
Proof. vm_compute. repeat split; reflexivity. Qed.

(* ------------------------------------------------------------------ uint8 (code 4: class 0, size 1, bit field 0), same dims:
   the full read works, the partial reads refuse the element size (dataset_read_hyperslab.go:385) *)
Definition ex_data8 : bytes := Hs.nrange 24.
Definition ex_img8 : bytes := image_v2 [100] 0 1 0 [4; 6] ex_data8.

Example ex_small_type :
  run0 ex_img8 (api_read_hyperslab SBI 64 (dset_addr ex_data8) ex_sel_2d) = Err
  /\ run0 ex_img8 (api_read_hyperslab SBI 64 (dset_addr ex_data8) ex_sel_run) = Err
  /\ run0 ex_img8 (api_read_slice SBI 64 (dset_addr ex_data8) [1; 2] [2; 3]) = Err
  /\ run0 ex_img8 (api_read_raw SBI 64 (dset_addr ex_data8)) = Ok (RawBytes ex_data8).
Proof. vm_compute. repeat split; reflexivity. Qed.

(* the guard predicate of tools/props/c09.py refine_guard on the cases above *)
Example ex_refine_case_ok :
  forallb refine_case_ok
    [ (2, [4; 6], "000000000100000002000000030000000400000005000000060000000700000008000000090000000a0000000b0000000c0000000d0000000e0000000f0000001000000011000000120000001300000014000000150000001600000017000000"%string,
       ([0; 1], [2; 2], [2; 3], [2; 2]), false);
      (2, [2; 3; 4], "000000000100000002000000030000000400000005000000060000000700000008000000090000000a0000000b0000000c0000000d0000000e0000000f0000001000000011000000120000001300000014000000150000001600000017000000"%string,
       ([0; 0; 1], [2; 2; 2], [1; 2; 2], []), false);
      (2, [4; 6], "000000000100000002000000030000000400000005000000060000000700000008000000090000000a0000000b0000000c0000000d0000000e0000000f0000001000000011000000120000001300000014000000150000001600000017000000"%string,
       ([18446744073709551615; 0], [2; 1], [], []), true);
      (4, [4; 6], "000102030405060708090a0b0c0d0e0f1011121314151617"%string, ([1; 2], [2; 3], [], []), true) ] = true.
Proof. vm_compute. reflexivity. Qed.
