(* C11 / C03: the symbol table node at byte level (Model/GroupWire.v).
     1. closed form and size of what WriteAt emits (8 + maxEntries * 40 bytes; never a panic when NumSymbols = len(Entries));
     2. round trip: ParseSymbolTableNode on ANY file holding the bytes at its address returns the node (version, count,
        all six fields of every entry, capacity);
     3. abstraction to Model/GroupNS.v (entries as (offset, address) pairs): new / add_entry / write_at / parse commute, and the
        FILE-level node half of linkToParent rewrites exactly the node image. *)
From HV Require Import Base.Prelude Base.Outcome Base.Bytes Model.RobustAlloc Model.RobustGroup Model.GroupWire Proofs.GroupWireHeap.
From HV Require Model.GroupNS.

Local Open Scope N_scope.

(* ------------------------------------------------------------------ 1. closed form *)
Definition snod_bytes (s : snode) (m : nat) : bytes :=
  sigSNOD ++ [stn_version s; 0] ++ le 2 (stn_num s)
  ++ flat_map (enc_sym 8) (firstn m (stn_entries s)) ++ zeros (40 * (m - length (stn_entries s))).

Lemma blen_enc_sym e : blen (enc_sym 8 e) = 40.
Proof. unfold enc_sym, write_address. rewrite !blen_app, !blen_le, blen_zeros. reflexivity. Qed.
Lemma length_enc_sym e : length (enc_sym 8 e) = 40%nat.
Proof. pose proof (blen_enc_sym e) as H. unfold blen in H. blia. Qed.

Lemma length_flat_enc es : length (flat_map (enc_sym 8) es) = (40 * length es)%nat.
Proof. induction es as [|e es IH]; cbn [flat_map length]; [reflexivity|]. rewrite app_length, length_enc_sym, IH. lia. Qed.

Lemma zeros_add a b : zeros (a + b) = zeros a ++ zeros b.
Proof. unfold zeros. apply repeat_app. Qed.

(* slots of used entries *)
Lemma snod_slots_used_gen s : forall k l1 l2,
  stn_entries s = l1 ++ l2 -> (k <= length l2)%nat -> stn_num s = llen (stn_entries s) ->
  snod_slots k (N.of_nat (length l1)) s 8 = Ok (flat_map (enc_sym 8) (firstn k l2)).
Proof.
  induction k as [|k IH]; intros l1 l2 Hl Hk Hn; cbn [snod_slots]; [reflexivity|].
  destruct l2 as [|e l2]; [cbn [length] in Hk; lia|].
  replace (N.of_nat (length l1) <? stn_num s) with true
    by (symmetry; apply N.ltb_lt; rewrite Hn, Hl; unfold llen; rewrite app_length; cbn [length]; lia).
  rewrite Nat2N.id, Hl, nth_error_app2, Nat.sub_diag by lia. cbn [nth_error obind].
  replace (N.of_nat (length l1) + 1) with (N.of_nat (length (l1 ++ [e]))) by (rewrite app_length; cbn [length]; lia).
  rewrite (IH (l1 ++ [e]) l2); [reflexivity | rewrite Hl, <- app_assoc; reflexivity | cbn [length] in Hk; lia | exact Hn].
Qed.

Lemma snod_slots_used s k : (k <= length (stn_entries s))%nat -> stn_num s = llen (stn_entries s) ->
  snod_slots k 0 s 8 = Ok (flat_map (enc_sym 8) (firstn k (stn_entries s))).
Proof. intros Hk Hn. exact (snod_slots_used_gen s k [] (stn_entries s) eq_refl Hk Hn). Qed.

(* slots beyond NumSymbols *)
Lemma snod_slots_unused s : forall k i, stn_num s <= i -> snod_slots k i s 8 = Ok (zeros (40 * k)).
Proof.
  induction k as [|k IH]; intros i Hi; cbn [snod_slots]; [reflexivity|].
  replace (i <? stn_num s) with false by (symmetry; apply N.ltb_ge; exact Hi).
  cbn [obind]. rewrite IH by lia. cbn [obind]. f_equal.
  change (N.to_nat (sym_size 8)) with 40%nat. rewrite <- zeros_add. f_equal. lia.
Qed.

Lemma snod_slots_split s : forall a b i,
  snod_slots (a + b) i s 8 = (x <- snod_slots a i s 8;; y <- snod_slots b (i + N.of_nat a) s 8;; Ok (x ++ y)).
Proof.
  induction a as [|a IH]; intros b i.
  - cbn [Nat.add snod_slots obind]. replace (i + N.of_nat 0) with i by lia.
    destruct (snod_slots b i s 8); reflexivity.
  - cbn [Nat.add snod_slots].
    destruct (if i <? stn_num s then _ else _) as [slot| |]; cbn [obind]; try reflexivity.
    rewrite IH. replace (i + 1 + N.of_nat a) with (i + N.of_nat (S a)) by lia.
    destruct (snod_slots a (i + 1) s 8) as [x| |]; cbn [obind]; try reflexivity.
    destruct (snod_slots b (i + N.of_nat (S a)) s 8) as [y| |]; cbn [obind]; try reflexivity.
    now rewrite app_assoc.
Qed.

(* WriteAt never panics and emits the closed form whenever NumSymbols = len(Entries) *)
Lemma snod_write_at_ok s m : stn_num s = llen (stn_entries s) ->
  snod_write_at s 8 (N.of_nat m) = Ok (snod_bytes s m).
Proof.
  intros Hn. unfold snod_write_at, snod_bytes. rewrite Nat2N.id.
  set (n := length (stn_entries s)).
  assert (Hs : snod_slots m 0 s 8 = Ok (flat_map (enc_sym 8) (firstn m (stn_entries s)) ++ zeros (40 * (m - n)))).
  { destruct (Nat.le_gt_cases m n) as [Hle|Hgt].
    - rewrite snod_slots_used by (auto; fold n; lia).
      replace (40 * (m - n))%nat with 0%nat by lia. cbn [zeros repeat].
      now rewrite app_nil_r.
    - replace m with (n + (m - n))%nat at 1 by lia. rewrite snod_slots_split.
      rewrite snod_slots_used by (auto; fold n; lia). cbn [obind].
      rewrite snod_slots_unused by (rewrite Hn; unfold llen; fold n; lia). cbn [obind].
      rewrite (firstn_all2 (n := n)) by (unfold n; lia). rewrite (firstn_all2 (n := m)) by (fold n; lia). reflexivity. }
  rewrite Hs. reflexivity.
Qed.

(* length (enc x) = 8 + maxEntries * 40: the 8 + 2K*40 of Model/Store.v for maxEntries = 32 *)
Lemma snod_bytes_size s m : blen (snod_bytes s m) = 8 + 40 * N.of_nat m.
Proof.
  unfold snod_bytes, blen. rewrite !app_length, length_le, length_flat_enc, length_zeros, firstn_length. cbn [length sigSNOD].
  lia.
Qed.

Lemma snod_write_at_size s m b : snod_write_at s 8 m = Ok b -> blen b = 8 + m * sym_size 8.
Proof.
  unfold snod_write_at. destruct (snod_slots (N.to_nat m) 0 s 8) as [body| |] eqn:E; cbn [obind]; try discriminate.
  intros X. inversion X; subst; clear X.
  assert (G : forall k i body, snod_slots k i s 8 = Ok body -> length body = (40 * k)%nat).
  { induction k as [|k IH]; intros i bd; cbn [snod_slots].
    - intros X. inversion X. reflexivity.
    - destruct (if i <? stn_num s then _ else _) as [slot| |] eqn:Es; cbn [obind]; try discriminate.
      destruct (snod_slots k (i + 1) s 8) as [rest| |] eqn:Er; cbn [obind]; try discriminate.
      intros X. inversion X; subst; clear X. rewrite app_length, (IH _ _ Er).
      assert (length slot = 40%nat).
      { destruct (i <? stn_num s).
        - destruct (nth_error (stn_entries s) (N.to_nat i)); inversion Es. apply length_enc_sym.
        - inversion Es. apply length_zeros. }
      lia. }
  apply G in E. unfold blen. cbn [sigSNOD app length]. bnorm. rewrite E. change (sym_size 8) with 40. lia.
Qed.

(* ------------------------------------------------------------------ 2. round trip *)
Lemma P8' : 256 ^ 8 = 18446744073709551616. Proof. reflexivity. Qed.

Lemma read_address_le8 v (r : list N) : v < 18446744073709551616 -> read_address (le 8 v ++ r) 8 = Ok v.
Proof.
  intros H. unfold read_address. rewrite blen_app, blen_le.
  replace (N.of_nat 8 + blen r <? 8) with false by (symmetry; apply N.ltb_ge; blia).
  change (8 =? 1) with false. change ((8 =? 2) || (8 =? 4) || (8 =? 8)) with true. cbv iota.
  apply rd_le_head; [reflexivity | exact H].
Qed.

Lemma zeros16 : zeros 16 = le 8 0 ++ le 8 0. Proof. reflexivity. Qed.

Lemma sym_ok_spec e : sym_ok e = true ->
  sy_name e < 18446744073709551616 /\ sy_obj e < 18446744073709551616 /\ sy_cache e < 4294967296 /\ sy_res e < 4294967296 /\
  sy_bt e = 0 /\ sy_heap e = 0.
Proof.
  unfold sym_ok, u64, u32. intros H. repeat (apply andb_true_iff in H as [H ?]).
  repeat match goal with X : (_ <? _) = true |- _ => apply N.ltb_lt in X | X : (_ =? _) = true |- _ => apply N.eqb_eq in X end.
  auto 10.
Qed.

(* one entry at [blen p] of the data buffer *)
Lemma sym_entry_step (p r : list N) e k :
  sym_ok e = true ->
  sym_entries (S k) (p ++ enc_sym 8 e ++ r) (blen p) 8 =
    (rest <- sym_entries k (p ++ enc_sym 8 e ++ r) (blen p + 40) 8;; Ok (e :: rest)).
Proof.
  intros He. destruct (sym_ok_spec e He) as (H1 & H2 & H3 & H4 & H5 & H6).
  cbn [sym_entries]. change (2 * 8 + 24) with 40.
  rewrite !blen_app, blen_enc_sym.
  replace (blen p + (40 + blen r) <? blen p + 40) with false by (symmetry; apply N.ltb_ge; blia).
  unfold enc_sym, write_address. change (N.to_nat 8) with 8%nat.
  set (A := le 8 (sy_name e)). set (B := le 8 (sy_obj e)). set (C := le 4 (sy_cache e)). set (D := le 4 (sy_res e)).
  assert (LA : blen A = 8) by apply blen_le. assert (LB : blen B = 8) by apply blen_le.
  assert (LC : blen C = 4) by apply blen_le. assert (LD : blen D = 4) by apply blen_le.
  rewrite slice_from_app by reflexivity. cbn [obind].
  rewrite <- !app_assoc. unfold A at 1. rewrite read_address_le8 by exact H1. cbn [obind].
  replace (p ++ A ++ B ++ C ++ D ++ zeros 16 ++ r) with ((p ++ A) ++ B ++ C ++ D ++ zeros 16 ++ r) by (now rewrite <- !app_assoc).
  rewrite slice_from_app by (rewrite blen_app; blia). cbn [obind].
  unfold B at 1. rewrite read_address_le8 by exact H2. cbn [obind].
  replace ((p ++ A) ++ B ++ C ++ D ++ zeros 16 ++ r) with ((p ++ A ++ B) ++ le 4 (sy_cache e) ++ (D ++ zeros 16 ++ r))
    by (now rewrite <- !app_assoc).
  rewrite (rd_le_at (p ++ A ++ B) 4 4 (sy_cache e)); [|rewrite !blen_app; blia | reflexivity | exact H3]. cbn [obind].
  replace ((p ++ A ++ B) ++ le 4 (sy_cache e) ++ D ++ zeros 16 ++ r) with ((p ++ A ++ B ++ C) ++ le 4 (sy_res e) ++ (zeros 16 ++ r))
    by (now rewrite <- !app_assoc).
  rewrite (rd_le_at (p ++ A ++ B ++ C) 4 4 (sy_res e)); [|rewrite !blen_app; blia | reflexivity | exact H4]. cbn [obind].
  set (data := (p ++ A ++ B ++ C) ++ le 4 (sy_res e) ++ zeros 16 ++ r).
  assert (Hsc : (if sy_cache e =? 1
                 then d2 <- slice_from data (blen p + 2 * 8 + 8);; bt <- read_address d2 8;;
                      d3 <- slice_from data (blen p + 2 * 8 + 8 + 8);; hp <- read_address d3 8;; Ok (bt, hp)
                 else Ok (0, 0)) = Ok (0, 0)).
  { destruct (sy_cache e =? 1); [|reflexivity].
    unfold data. rewrite zeros16.
    replace ((p ++ A ++ B ++ C) ++ le 4 (sy_res e) ++ (le 8 0 ++ le 8 0) ++ r)
      with ((p ++ A ++ B ++ C ++ D) ++ le 8 0 ++ le 8 0 ++ r) by (now rewrite <- !app_assoc).
    rewrite slice_from_app by (rewrite !blen_app; blia). cbn [obind].
    rewrite read_address_le8 by lia. cbn [obind].
    replace ((p ++ A ++ B ++ C ++ D) ++ le 8 0 ++ le 8 0 ++ r)
      with ((p ++ A ++ B ++ C ++ D ++ le 8 0) ++ le 8 0 ++ r) by (now rewrite <- !app_assoc).
    rewrite slice_from_app by (rewrite !blen_app, blen_le; blia). cbn [obind].
    rewrite read_address_le8 by lia. reflexivity. }
  rewrite Hsc. cbn [obind].
  destruct (sym_entries k data (blen p + 40) 8) as [rest| |]; cbn [obind]; try reflexivity.
  destruct e. cbn in *. subst. reflexivity.
Qed.

Lemma sym_entries_enc es : forall (p r : list N),
  Forall (fun e => sym_ok e = true) es ->
  sym_entries (length es) (p ++ flat_map (enc_sym 8) es ++ r) (blen p) 8 = Ok es.
Proof.
  induction es as [|e es IH]; intros p r H; [reflexivity|].
  apply Forall_cons_iff in H as [He Hr]. cbn [length flat_map]. rewrite <- app_assoc.
  rewrite sym_entry_step by exact He.
  replace (p ++ enc_sym 8 e ++ flat_map (enc_sym 8) es ++ r) with ((p ++ enc_sym 8 e) ++ flat_map (enc_sym 8) es ++ r)
    by (now rewrite <- app_assoc).
  replace (blen p + 40) with (blen (p ++ enc_sym 8 e)) by (rewrite blen_app, blen_enc_sym; reflexivity).
  rewrite IH by exact Hr. reflexivity.
Qed.

Lemma snode_ok_spec s : snode_ok s = true ->
  stn_version s = 1 /\ stn_num s = llen (stn_entries s) /\ stn_num s < 65536 /\ Forall (fun e => sym_ok e = true) (stn_entries s) /\
  stn_cap s = (if 32 <? stn_num s then stn_num s else 32).
Proof.
  unfold snode_ok. intros H. repeat (apply andb_true_iff in H as [H ?]).
  repeat match goal with X : (_ <? _) = true |- _ => apply N.ltb_lt in X | X : (_ =? _) = true |- _ => apply N.eqb_eq in X end.
  repeat split; auto. apply Forall_forall. now apply forallb_forall.
Qed.

(* reader (writer x) = Ok x: every well-formed node with at most maxEntries entries, any address, any surrounding file *)
Theorem parse_snod_bytes s m (pre suf : list N) :
  snode_ok s = true -> (length (stn_entries s) <= m)%nat -> blen pre + 8 + 40 * N.of_nat m <= MaxInt64 ->
  parse_snod (pre ++ snod_bytes s m ++ suf) (blen pre) 8 = Ok s.
Proof.
  intros Hok Hm Hb. destruct (snode_ok_spec s Hok) as (Hv & Hn & Hlt & Hes & Hcap).
  rewrite MaxInt64_val in Hb.
  unfold parse_snod, snod_bytes. rewrite firstn_all2 by exact Hm.
  set (body := flat_map (enc_sym 8) (stn_entries s) ++ zeros (40 * (m - length (stn_entries s)))).
  set (hdr := sigSNOD ++ [stn_version s; 0] ++ le 2 (stn_num s)).
  replace (pre ++ (sigSNOD ++ [stn_version s; 0] ++ le 2 (stn_num s) ++ body) ++ suf) with (pre ++ hdr ++ (body ++ suf))
    by (unfold hdr; now rewrite <- !app_assoc).
  rewrite read_at_app with (mid := hdr); [|reflexivity | reflexivity | rewrite MaxInt64_val; blia].
  cbn [obind]. unfold hdr at 1. cbn [sigSNOD app firstn]. change (bytes_eqb [83; 78; 79; 68] [83; 78; 79; 68]) with true.
  cbn [negb]. unfold hdr at 1. cbn [sigSNOD app]. rewrite Hv. cbn [index nth_error N.to_nat Pos.to_nat Pos.iter_op Nat.add obind].
  change (negb (1 =? 1)) with false. cbv iota.
  unfold hdr at 1. rewrite Hv.
  change (sigSNOD ++ [1; 0] ++ le 2 (stn_num s)) with ([83; 78; 79; 68; 1; 0] ++ le 2 (stn_num s) ++ []).
  rewrite (rd_le_at [83; 78; 79; 68; 1; 0] 2 2 (stn_num s)); [|reflexivity | reflexivity | exact Hlt]. cbn [obind].
  rewrite <- Hcap.
  destruct (stn_num s =? 0) eqn:E0.
  - apply N.eqb_eq in E0.
    assert (Hes0 : stn_entries s = []).
    { destruct (stn_entries s); [reflexivity|]. rewrite E0 in Hn. unfold llen in Hn. cbn [length] in Hn. lia. }
    destruct s as [v n es c]. cbn [stn_version stn_num stn_entries stn_cap] in *. rewrite Hv, E0, Hes0. reflexivity.
  - change (2 * 8 + 24) with 40.
    assert (Hlen : stn_num s * 40 = blen (flat_map (enc_sym 8) (stn_entries s))).
    { unfold blen. rewrite length_flat_enc, Hn. unfold llen. lia. }
    unfold body. rewrite <- !app_assoc. rewrite app_assoc.
    rewrite read_at_app with (mid := flat_map (enc_sym 8) (stn_entries s));
      [|rewrite blen_app; reflexivity | exact Hlen | ].
    2:{ rewrite MaxInt64_val, Hn. unfold llen. blia. }
    cbn [obind]. replace (N.to_nat (stn_num s)) with (length (stn_entries s)) by (rewrite Hn; unfold llen; lia).
    pose proof (sym_entries_enc (stn_entries s) [] [] Hes) as S. cbn [app] in S. rewrite app_nil_r in S.
    change (blen []) with 0 in S. rewrite S. cbn [obind].
    destruct s as [v n es c]. cbn [stn_version stn_num stn_entries stn_cap] in *. rewrite Hv. reflexivity.
Qed.

(* ------------------------------------------------------------------ 3. abstraction to Model/GroupNS.v *)
Definition abs_sym (e : sym) : NS.entry := {| NS.e_off := sy_name e; NS.e_obj := sy_obj e |}.
Definition abs_snode (s : snode) : NS.wsnod := {| NS.sn_entries := map abs_sym (stn_entries s); NS.sn_cap := stn_cap s |}.

Lemma abs_new_snode c : abs_snode (new_snode c) = NS.new_snod c.
Proof. reflexivity. Qed.

Lemma abs_add_entry s e : stn_num s = llen (stn_entries s) ->
  omap abs_snode (add_entry s e) = of_option (NS.add_entry (abs_snode s) (abs_sym e)).
Proof.
  intros Hn. unfold add_entry, NS.add_entry. cbn [abs_snode NS.sn_cap NS.sn_entries].
  replace (NS.blen (map abs_sym (stn_entries s))) with (stn_num s)
    by (rewrite Hn; unfold NS.blen, llen; now rewrite map_length).
  destruct (stn_cap s <=? stn_num s); [reflexivity|]. cbn [omap of_option]. unfold abs_snode. cbn [stn_entries stn_cap].
  now rewrite map_app.
Qed.

(* what reaches the file is the first maxEntries entries, as in GroupNS *)
Lemma abs_snod_write_at s m :
  NS.snod_write_at (abs_snode s) (N.of_nat m) = map abs_sym (firstn m (stn_entries s)).
Proof. unfold NS.snod_write_at. cbn [abs_snode NS.sn_entries]. rewrite Nat2N.id. apply firstn_map. Qed.

Lemma abs_parse s : snode_ok s = true -> abs_snode s = NS.parse_snod 32 (map abs_sym (stn_entries s)).
Proof.
  intros H. destruct (snode_ok_spec s H) as (_ & Hn & _ & _ & Hc).
  unfold NS.parse_snod, abs_snode. f_equal. rewrite Hc.
  replace (NS.blen (map abs_sym (stn_entries s))) with (stn_num s)
    by (rewrite Hn; unfold NS.blen, llen; now rewrite map_length).
  destruct (32 <? stn_num s) eqn:E; [apply N.ltb_lt in E | apply N.ltb_ge in E]; lia.
Qed.

Lemma add_entry_ok s e s1 : snode_ok s = true -> sym_ok e = true -> add_entry s e = Ok s1 -> stn_num s < 32 ->
  snode_ok s1 = true /\ stn_entries s1 = stn_entries s ++ [e].
Proof.
  intros H He A Hlt. destruct (snode_ok_spec s H) as (Hv & Hn & Hl & Hes & Hc).
  unfold add_entry in A. destruct (stn_cap s <=? stn_num s); [discriminate|]. inversion A; subst; clear A.
  split; [|reflexivity]. unfold snode_ok. cbn [stn_version stn_num stn_entries stn_cap].
  assert (W : wrap16 (stn_num s + 1) = stn_num s + 1) by (unfold wrap16; apply N.mod_small; lia).
  rewrite W, Hv, Hc. rewrite forallb_app. cbn [forallb]. rewrite He.
  replace (forallb sym_ok (stn_entries s)) with true
    by (symmetry; apply forallb_forall; now apply Forall_forall).
  replace (32 <? stn_num s) with false by (symmetry; apply N.ltb_ge; lia).
  replace (32 <? stn_num s + 1) with false by (symmetry; apply N.ltb_ge; lia).
  replace (stn_num s + 1 =? llen (stn_entries s ++ [e])) with true
    by (symmetry; apply N.eqb_eq; rewrite Hn; unfold llen; rewrite app_length; cbn [length]; lia).
  replace (stn_num s + 1 <? 65536) with true by (symmetry; apply N.ltb_lt; lia).
  reflexivity.
Qed.

(* the node half of linkToParent on the FILE: for every file holding a well-formed node of at most 32 entries written with
   maxEntries = 32: the step fails exactly when GroupNS's add_entry on the parsed node fails (32 entries), otherwise the file
   holds the image of the node with the new entry appended, the rest of the file untouched *)
Theorem link_snod_commutes s e (pre suf : list N) :
  snode_ok s = true -> sym_ok e = true -> (length (stn_entries s) <= 32)%nat -> blen pre + 8 + 40 * 32 <= MaxInt64 ->
  match NS.add_entry (NS.parse_snod 32 (map abs_sym (stn_entries s))) (abs_sym e) with
  | None => link_snod (pre ++ snod_bytes s 32 ++ suf) (blen pre) e = Err /\ length (stn_entries s) = 32%nat
  | Some n1 =>
      exists s1, snode_ok s1 = true /\ stn_entries s1 = stn_entries s ++ [e] /\ abs_snode s1 = n1 /\
        link_snod (pre ++ snod_bytes s 32 ++ suf) (blen pre) e = Ok (pre ++ snod_bytes s1 32 ++ suf)
  end.
Proof.
  intros Hok He Hm Hb. destruct (snode_ok_spec s Hok) as (Hv & Hn & Hl & Hes & Hc).
  unfold link_snod. rewrite (parse_snod_bytes s 32 pre suf Hok Hm) by exact Hb. cbn [obind].
  rewrite <- (abs_parse s Hok). pose proof (abs_add_entry s e Hn) as A.
  destruct (NS.add_entry (abs_snode s) (abs_sym e)) as [n1|] eqn:E; cbn [of_option] in A.
  - destruct (add_entry s e) as [s1| |] eqn:E1; cbn [omap] in A; try discriminate. inversion A; subst n1; clear A.
    assert (Hlt : stn_num s < 32).
    { unfold add_entry in E1. destruct (stn_cap s <=? stn_num s) eqn:E2; [discriminate|]. apply N.leb_gt in E2.
      rewrite Hc in E2. destruct (32 <? stn_num s) eqn:E3; lia. }
    destruct (add_entry_ok s e s1 Hok He E1 Hlt) as (Hok1 & Hes1).
    exists s1. repeat split; auto. cbn [obind].
    destruct (snode_ok_spec s1 Hok1) as (_ & Hn1 & _ & _ & _).
    change SNOD_CAP with (N.of_nat 32). rewrite snod_write_at_ok by exact Hn1. cbn [obind]. f_equal.
    apply write_at_replace.
    + unfold snod_bytes. cbn [sigSNOD app]. discriminate.
    + now rewrite !snod_bytes_size.
  - destruct (add_entry s e) as [s1| |] eqn:E1; cbn [omap] in A; try discriminate. cbn [obind]. split; [reflexivity|].
    unfold add_entry in E1. destruct (stn_cap s <=? stn_num s) eqn:E2; [|discriminate]. apply N.leb_le in E2.
    rewrite Hc in E2. rewrite Hn in *. unfold llen in *. destruct (32 <? N.of_nat (length (stn_entries s))) eqn:E3; lia.
Qed.

(* ------------------------------------------------------------------ examples *)
Example ex_sym (off obj : N) : sym := {| sy_name := off; sy_obj := obj; sy_cache := 0; sy_res := 0; sy_bt := 0; sy_heap := 0 |}.
Example ex_snode : snode := {| stn_version := 1; stn_num := 2; stn_entries := [ex_sym 0 800; ex_sym 3 1072]; stn_cap := 32 |}.
Example ex_snode_roundtrip :
  snode_ok ex_snode = true /\ snod_write_at ex_snode 8 32 = Ok (snod_bytes ex_snode 32) /\
  parse_snod (zeros 50 ++ snod_bytes ex_snode 32 ++ [9]) 50 8 = Ok ex_snode.
Proof. vm_compute. repeat split. Qed.
