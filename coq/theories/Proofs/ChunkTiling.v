(* Main lemmas for C01 (tiling) and C13 (read after resize):
   placing all chunks written for `old` extents under `new` extents, in any order, starting from
   zeros, yields resize_arr old new data.  With old = new this is the tiling theorem. *)
From HV Require Import Base.Prelude Model.Chunk Proofs.ChunkLists Proofs.ChunkSpec Proofs.ChunkCoords.
From Coq Require Import Permutation.

Local Open Scope N_scope.

Section Tiling.
Variable esz : N.

Notation ext := (ext_spec esz).
Notation place := (place_spec esz).

(* functional version of read_chunked over write_chunks *)
Definition Rfold (new old cdims : list N) (data : bytes) (L : list (list N)) (init : bytes) : bytes :=
  fold_left (fun acc c => place new cdims c (ext old cdims c data (zerosN (vol cdims esz))) acc) L init.

(* ---------------- resize_arr laws ---------------- *)
Lemma lenN_resize_arr old : forall new data, length new = length old ->
  lenN data = vol old esz -> lenN (resize_arr old new esz data) = vol new esz.
Proof.
  induction old as [|o old' IH]; intros [|n new'] data Hl Hd; try discriminate.
  - cbn [resize_arr]. rewrite lenN_takeN, Hd, vol_nil. lia.
  - cbn [resize_arr]. cbn [length] in Hl. rewrite vol_cons in *.
    apply lenN_concat_range. intros k Hk. destruct (k <? o) eqn:E.
    + apply IH; [lia|]. apply lenN_blk. nia.
    + apply lenN_zerosN.
Qed.

Lemma resize_arr_id d : forall x, lenN x = vol d esz -> resize_arr d d esz x = x.
Proof.
  induction d as [|d0 d' IH]; intros x Hx.
  - cbn [resize_arr]. apply takeN_all. rewrite Hx, vol_nil. lia.
  - cbn [resize_arr]. rewrite vol_cons in Hx.
    transitivity (concat (map (fun k => blk (vol d' esz) k x) (rangeN d0))); [| apply concat_blocks; auto].
    f_equal. apply map_ext_in. intros k Hk. apply in_rangeN in Hk.
    replace (k <? d0) with true by lia. apply IH. apply lenN_blk. nia.
Qed.

(* element-wise reading of the specification *)
Lemma get_resize_arr old : forall new data ix, length new = length old ->
  lenN data = vol old esz -> in_extent new ix = true ->
  get_elem new esz (resize_arr old new esz data) ix
  = if in_extent old ix then get_elem old esz data ix else zerosN esz.
Proof.
  induction old as [|o old' IH]; intros [|n new'] data ix Hl Hd Hin; try discriminate.
  - destruct ix; [|discriminate]. cbn [get_elem resize_arr in_extent].
    unfold takeN. rewrite firstn_firstn. f_equal. lia.
  - destruct ix as [|i ix']; [discriminate|].
    cbn [in_extent] in Hin. apply andb_prop in Hin. destruct Hin as [Hi Hin].
    cbn [length] in Hl. rewrite vol_cons in Hd.
    cbn [get_elem resize_arr in_extent].
    rewrite blk_concat; [| | lia].
    + destruct (i <? o) eqn:E; cbn [andb].
      * apply IH; auto. apply lenN_blk. nia.
      * (* an element of a zero block is zero *)
        clear - Hin. revert ix' Hin. induction new' as [|n new'' IHn]; intros ix' Hin.
        -- destruct ix'; [|discriminate]. cbn [get_elem]. rewrite vol_nil. apply takeN_all. rewrite lenN_zerosN. lia.
        -- destruct ix' as [|j ix'']; [discriminate|]. cbn [in_extent] in Hin.
           apply andb_prop in Hin. destruct Hin as [Hj Hin].
           cbn [get_elem]. rewrite vol_cons. rewrite blk_zeros by nia. apply IHn. auto.
    + intros k Hk. destruct (k <? o) eqn:E; [apply lenN_resize_arr; [lia|apply lenN_blk; nia] | apply lenN_zerosN].
Qed.

(* ---------------- zeros ---------------- *)
Lemma place_zeros dims : forall cdims coord, length cdims = length dims -> length coord = length dims ->
  place dims cdims coord (zerosN (vol cdims esz)) (zerosN (vol dims esz)) = zerosN (vol dims esz).
Proof.
  induction dims as [|d dims' IH]; intros [|cd cdims'] [|c coord'] Hc Hx; try discriminate.
  - cbn [place_spec]. rewrite vol_nil. apply takeN_all. rewrite lenN_zerosN. lia.
  - cbn [place_spec]. cbn [length] in *. rewrite !vol_cons.
    transitivity (concat (map (fun _ => zerosN (vol dims' esz)) (rangeN d))); [| apply concat_zeros].
    f_equal. apply map_ext_in. intros k Hk. apply in_rangeN in Hk.
    rewrite (blk_zeros (vol dims' esz) k) by nia.
    destruct ((c * cd <=? k) && (k <? c * cd + cd)) eqn:E; auto.
    rewrite blk_zeros by nia. apply IH; lia.
Qed.

(* ---------------- one block of the fold ---------------- *)
(* what a chunk (c0 :: c') does to block k of the result *)
Definition stepk (new' old' cdims' : list N) (o cd k : N) (data : bytes) (b : bytes) (c : list N) : bytes :=
  match c with
  | c0 :: c' =>
      if (c0 * cd <=? k) && (k <? c0 * cd + cd)
      then place new' cdims' c'
                 (if k <? o then ext old' cdims' c' (blk (vol old' esz) k data) (zerosN (vol cdims' esz))
                  else zerosN (vol cdims' esz)) b
      else b
  | [] => b
  end.

Lemma blk_Rfold n new' o old' cd cdims' data k : forall L init,
  length new' = length old' -> length cdims' = length old' ->
  Forall (fun c => length c = S (length old')) L ->
  lenN data = vol (o :: old') esz -> lenN init = vol (n :: new') esz -> k < n ->
  blk (vol new' esz) k (Rfold (n :: new') (o :: old') (cd :: cdims') data L init)
  = fold_left (stepk new' old' cdims' o cd k data) L (blk (vol new' esz) k init)
  /\ lenN (Rfold (n :: new') (o :: old') (cd :: cdims') data L init) = vol (n :: new') esz.
Proof.
  induction L as [|c L IH]; intros init Hn Hc HL Hd Hi Hk.
  - cbn [Rfold fold_left]. auto.
  - inversion HL as [|? ? Hlc HL']; subst.
    destruct c as [|c0 c']; [discriminate|]. cbn [length] in Hlc.
    unfold Rfold in *. cbn [fold_left].
    set (chunk := ext (o :: old') (cd :: cdims') (c0 :: c') data (zerosN (vol (cd :: cdims') esz))).
    assert (Hchunk : lenN chunk = vol (cd :: cdims') esz).
    { apply lenN_ext_spec; cbn [length]; auto; try lia. apply lenN_zerosN. }
    set (acc := place (n :: new') (cd :: cdims') (c0 :: c') chunk init).
    assert (Hacc : lenN acc = vol (n :: new') esz).
    { apply lenN_place_spec; cbn [length]; auto; lia. }
    destruct (IH acc Hn Hc HL' Hd Hacc Hk) as [E1 E2]. split; [|exact E2].
    rewrite E1. f_equal.
    (* block k of one placement *)
    unfold acc. cbn [place_spec stepk]. rewrite !vol_cons in *.
    rewrite blk_concat; [| | exact Hk].
    2:{ intros i Hi'. destruct ((c0 * cd <=? i) && (i <? c0 * cd + cd)) eqn:E.
        - apply lenN_place_spec; try lia; apply lenN_blk; nia.
        - apply lenN_blk. nia. }
    destruct ((c0 * cd <=? k) && (k <? c0 * cd + cd)) eqn:E; auto.
    f_equal.
    unfold chunk. cbn [ext_spec]. rewrite vol_cons.
    rewrite blk_concat; [| | lia].
    + replace (c0 * cd + (k - c0 * cd)) with k by lia.
      rewrite blk_zeros by nia. reflexivity.
    + intros i Hi'. rewrite (blk_zeros (vol cdims' esz) i) by nia.
      destruct (c0 * cd + i <? o) eqn:E'; [| apply lenN_zerosN].
      apply lenN_ext_spec; try lia; [apply lenN_blk; nia | apply lenN_zerosN].
Qed.

(* ---------------- the general theorem, functional level ---------------- *)
Lemma div_lt_num_chunks k o cd : 0 < cd -> k < o -> k / cd < (o + cd - 1) / cd.
Proof.
  intros Hcd Hk.
  apply N.div_lt_upper_bound; [lia|].
  pose proof (N.div_mod (o + cd - 1) cd ltac:(lia)) as E.
  pose proof (N.mod_lt (o + cd - 1) cd ltac:(lia)).
  nia.
Qed.

Lemma window_div c0 cd k : 0 < cd -> ((c0 * cd <=? k) && (k <? c0 * cd + cd)) = (c0 =? k / cd).
Proof.
  intros Hcd.
  pose proof (N.div_mod k cd ltac:(lia)) as E. pose proof (N.mod_lt k cd ltac:(lia)).
  destruct (N.eq_dec c0 (k / cd)) as [->|Hne].
  - rewrite N.eqb_refl. nia.
  - replace (c0 =? k / cd) with false by lia.
    destruct ((c0 * cd <=? k) && (k <? c0 * cd + cd)) eqn:E2; auto.
    exfalso. apply Hne. apply (N.div_unique k cd c0 (k - c0 * cd)); lia.
Qed.

Theorem Rfold_resize old : forall new cdims L data,
  length new = length old -> length cdims = length old ->
  posl cdims ->
  Permutation L (coords_of (num_chunks old cdims)) ->
  lenN data = vol old esz ->
  Rfold new old cdims data L (zerosN (vol new esz)) = resize_arr old new esz data.
Proof.
  induction old as [|o old' IH]; intros [|n new'] [|cd cdims'] L data Hn Hc Hp HP Hd; try discriminate.
  - cbn [num_chunks zipWith coords_of] in HP. apply Permutation_sym, Permutation_length_1_inv in HP. subst L.
    unfold Rfold. cbn [fold_left place_spec ext_spec resize_arr]. rewrite takeN_takeN. f_equal. lia.
  - cbn [length] in Hn, Hc. inversion Hp as [|? ? Hcd Hp']; subst.
    rewrite num_chunks_cons in HP.
    assert (HL : Forall (fun c => length c = S (length old')) L).
    { apply Forall_forall. intros c Hin. apply (Permutation_in _ HP) in Hin.
      apply in_coords_length in Hin. rewrite Hin. cbn [length]. f_equal. apply length_num_chunks. lia. }
    assert (Hz : lenN (zerosN (vol (n :: new') esz)) = vol (n :: new') esz) by apply lenN_zerosN.
    set (R := Rfold (n :: new') (o :: old') (cd :: cdims') data L (zerosN (vol (n :: new') esz))).
    assert (HR : lenN R = vol (n :: new') esz).
    { destruct n as [|p].
      - (* no blocks at all *)
        unfold R, Rfold. apply fold_left_inv; auto.
        intros acc c Hin Hacc. apply lenN_place_spec; cbn [length]; auto; try lia.
        + rewrite Forall_forall in HL. specialize (HL c Hin). rewrite HL. lia.
        + apply lenN_ext_spec; cbn [length]; auto; try lia.
          * rewrite Forall_forall in HL. specialize (HL c Hin). rewrite HL. lia.
          * apply lenN_zerosN.
      - apply (blk_Rfold (N.pos p) new' o old' cd cdims' data 0 L _ ltac:(lia) ltac:(lia) HL Hd Hz ltac:(lia)). }
    cbn [resize_arr]. rewrite vol_cons in HR, Hd.
    rewrite <- (concat_blocks (vol new' esz) n R HR).
    f_equal. apply map_ext_in. intros k Hk. apply in_rangeN in Hk.
    unfold R.
    destruct (blk_Rfold n new' o old' cd cdims' data k L _ ltac:(lia) ltac:(lia) HL ltac:(rewrite vol_cons; exact Hd) Hz Hk) as [E _].
    rewrite E. rewrite vol_cons, blk_zeros by nia.
    destruct (k <? o) eqn:Eko.
    + (* inside the old extent: the row of chunks k / cd rebuilds block k *)
      rewrite (fold_left_ext_in _ (fun b c => if hd_is (k / cd) c
                  then (fun b c' => place new' cdims' c'
                                          (ext old' cdims' c' (blk (vol old' esz) k data) (zerosN (vol cdims' esz))) b)
                         b (tl c)
                  else b)).
      2:{ intros acc c Hin. rewrite Forall_forall in HL. specialize (HL c Hin).
          destruct c as [|c0 c']; [discriminate|]. cbn [stepk hd_is tl].
          rewrite window_div by lia. rewrite Eko. reflexivity. }
      rewrite (fold_left_filter (hd_is (k / cd))).
      rewrite (fold_left_map (@tl N)
                 (fun b c' => place new' cdims' c' (ext old' cdims' c' (blk (vol old' esz) k data) (zerosN (vol cdims' esz))) b)).
      apply (IH new' cdims' _ (blk (vol old' esz) k data)); try lia; auto.
      * apply (select_row_perm L ((o + cd - 1) / cd)); auto. apply div_lt_num_chunks; lia.
      * apply lenN_blk. nia.
    + (* beyond the old extent: only zero padding is ever placed *)
      apply fold_left_inv; auto.
      intros acc c Hin ->. rewrite Forall_forall in HL. specialize (HL c Hin).
      destruct c as [|c0 c']; [discriminate|]. cbn [stepk]. rewrite Eko.
      destruct ((c0 * cd <=? k) && (k <? c0 * cd + cd)); auto.
      apply place_zeros; cbn [length] in HL; lia.
Qed.

(* ---------------- the imperative model refines Rfold ---------------- *)
Lemma bind_fold_map {A B C} (f : A -> C -> res A) (h : B -> C) l a :
  bind_fold f (map h l) a = bind_fold (fun acc x => f acc (h x)) l a.
Proof.
  unfold bind_fold. generalize (Ok a). induction l; intros r; cbn [map fold_left]; auto.
Qed.

Lemma existsb_zero_pos l : posl l -> existsb (N.eqb 0) l = false.
Proof.
  induction 1; cbn [existsb]; auto. rewrite IHForall. replace (0 =? x) with false by lia. reflexivity.
Qed.

Lemma read_chunked_refine new old cdims data L :
  old <> [] -> length new = length old -> length cdims = length old -> posl cdims ->
  Forall (fun c => length c = length old) L ->
  lenN data = vol old esz ->
  read_chunked new cdims esz
               (map (fun c => (chunk_key cdims c, extract_padded old cdims esz data c)) L)
  = Ok (Rfold new old cdims data L (zerosN (vol new esz))).
Proof.
  intros Hne Hn Hc Hp HL Hd. unfold read_chunked.
  rewrite existsb_zero_pos by auto.
  rewrite bind_fold_map. cbn [fst snd]. fold (vol new esz).
  apply (bind_fold_ok _ (fun acc c => place new cdims c (ext old cdims c data (zerosN (vol cdims esz))) acc)
                      (fun acc => lenN acc = vol new esz)).
  - apply lenN_zerosN.
  - intros acc c Hin Hacc. rewrite Forall_forall in HL. specialize (HL c Hin).
    rewrite scaled_key_id by (auto; lia).
    rewrite extract_padded_spec by (auto; lia).
    assert (lenN (ext old cdims c data (zerosN (vol cdims esz))) = vol cdims esz)
      by (apply lenN_ext_spec; auto; apply lenN_zerosN).
    split.
    + apply copy_nd_chunk_spec; auto; try lia. destruct new; [destruct old; [congruence|discriminate]|discriminate].
    + apply lenN_place_spec; auto; lia.
Qed.

End Tiling.

(* ---------------- statements on the model ---------------- *)
(* reading the chunks written for old under new, in any order *)
Theorem read_after_resize_any_order old new cdims esz data L :
  shape_ok old cdims esz -> length new = length old ->
  lenN data = vol old esz ->
  Permutation L (all_chunk_coords old cdims) ->
  read_chunked new cdims esz
               (map (fun c => (chunk_key cdims c, extract_padded old cdims esz data c)) L)
  = Ok (resize_arr old new esz data).
Proof.
  intros (Hne & Hc & Hpd & Hpc & _) Hn Hd HP.
  rewrite all_chunk_coords_enum in HP by auto.
  rewrite read_chunked_refine; auto.
  - f_equal. apply Rfold_resize; auto.
  - apply Forall_forall. intros c Hin. apply (Permutation_in _ HP) in Hin.
    apply in_coords_length in Hin. rewrite Hin. apply length_num_chunks. auto.
Qed.

Theorem read_after_resize_correct old new cdims esz data :
  shape_ok old cdims esz -> length new = length old -> lenN data = vol old esz ->
  read_after_resize old new cdims esz data = Ok (resize_arr old new esz data).
Proof.
  intros. unfold read_after_resize, write_chunks.
  apply read_after_resize_any_order; auto.
Qed.

Theorem chunk_tiling_any_order dims cdims esz data L :
  shape_ok dims cdims esz -> lenN data = vol dims esz ->
  Permutation L (all_chunk_coords dims cdims) ->
  read_chunked dims cdims esz
               (map (fun c => (chunk_key cdims c, extract_padded dims cdims esz data c)) L)
  = Ok data.
Proof.
  intros. rewrite (read_after_resize_any_order dims dims cdims esz data L); auto.
  f_equal. apply resize_arr_id. auto.
Qed.

Theorem chunk_tiling dims cdims esz data :
  shape_ok dims cdims esz -> lenN data = vol dims esz ->
  read_chunked dims cdims esz (write_chunks dims cdims esz data) = Ok data.
Proof.
  intros. unfold write_chunks. apply chunk_tiling_any_order; auto.
Qed.

(* any permutation of the written (key, chunk) pairs *)
Theorem chunk_order_irrelevant dims cdims esz data chunks :
  shape_ok dims cdims esz -> lenN data = vol dims esz ->
  Permutation chunks (write_chunks dims cdims esz data) ->
  read_chunked dims cdims esz chunks = read_chunked dims cdims esz (write_chunks dims cdims esz data).
Proof.
  intros Hs Hd HP. rewrite chunk_tiling by auto.
  unfold write_chunks in HP.
  apply Permutation_map_inv in HP. destruct HP as (L & -> & HP).
  apply chunk_tiling_any_order; auto. apply Permutation_sym. auto.
Qed.

(* ---------------- two resizes without a write in between ---------------- *)
Lemma resize_zeros esz old : forall new, length new = length old ->
  resize_arr old new esz (zerosN (vol old esz)) = zerosN (vol new esz).
Proof.
  induction old as [|o old' IH]; intros [|n new'] Hl; try discriminate.
  - cbn [resize_arr]. rewrite !vol_nil. apply takeN_all. rewrite lenN_zerosN. lia.
  - cbn [resize_arr]. cbn [length] in Hl. rewrite !vol_cons.
    transitivity (concat (map (fun _ => zerosN (vol new' esz)) (rangeN n))); [| apply concat_zeros].
    f_equal. apply map_ext_in. intros k Hk. destruct (k <? o) eqn:E; auto.
    rewrite blk_zeros by nia. apply IH. lia.
Qed.

Lemma resize_arr_compose esz old : forall mid new data,
  mid_covers old mid new -> lenN data = vol old esz ->
  resize_arr mid new esz (resize_arr old mid esz data) = resize_arr old new esz data.
Proof.
  induction old as [|o old' IH]; intros [|m mid'] [|n new'] data Hc Hd; cbn [mid_covers] in Hc; try contradiction.
  - cbn [resize_arr]. rewrite takeN_takeN. f_equal. lia.
  - destruct Hc as [Hm Hc]. rewrite vol_cons in Hd.
    assert (Hlen : length mid' = length old' /\ length new' = length old').
    { clear - Hc. revert mid' new' Hc. induction old'; intros [|? ?] [|? ?] H; cbn [mid_covers] in H; try contradiction; auto.
      destruct H as [_ H]. destruct (IHold' _ _ H). cbn [length]. lia. }
    destruct Hlen as [Hl1 Hl2].
    cbn [resize_arr]. f_equal. apply map_ext_in. intros k Hk. apply in_rangeN in Hk.
    destruct (k <? m) eqn:Ekm.
    + rewrite blk_concat; [| | lia].
      * destruct (k <? o) eqn:Eko.
        -- apply IH; auto. apply lenN_blk. nia.
        -- apply resize_zeros. lia.
      * intros i Hi. destruct (i <? o) eqn:E; [| apply lenN_zerosN].
        apply lenN_resize_arr; [lia|]. apply lenN_blk. nia.
    + replace (k <? o) with false by lia. reflexivity.
Qed.

(* the library's answer after old -> mid -> new (chunk index still the one written for old) is the
   specified one whenever no intermediate extent drops below both outer extents *)
Theorem read_after_two_resizes old mid new cdims esz data :
  shape_ok old cdims esz -> mid_covers old mid new -> lenN data = vol old esz ->
  read_after_resize old new cdims esz data = Ok (resize_twice_spec old mid new esz data).
Proof.
  intros Hs Hc Hd. unfold resize_twice_spec. rewrite resize_arr_compose by auto.
  apply read_after_resize_correct; auto.
  clear - Hc. revert mid new Hc. induction old; intros [|? ?] [|? ?] H; cbn [mid_covers] in H; try contradiction; auto.
  destruct H as [_ H]. cbn [length]. f_equal. eauto.
Qed.

(* ... and differs otherwise: stale data of the first write shows up again *)
Lemma shrink_grow_refuted :
  exists old mid new cdims esz data,
    shape_ok old cdims esz /\ length mid = length old /\ length new = length old /\
    lenN data = vol old esz /\
    read_after_resize old new cdims esz data = Ok [1; 2; 3; 4; 5; 6; 7] /\
    resize_twice_spec old mid new esz data = [1; 2; 3; 0; 0; 0; 0].
Proof.
  exists [8], [3], [7], [4], 1, [1; 2; 3; 4; 5; 6; 7; 8].
  repeat split; try (vm_compute; reflexivity); try discriminate.
  - repeat constructor.
  - repeat constructor.
Qed.
