(* Final statements for Props/C04.v, C05.v, C10.v, C16.v; refutation witnesses; non-vacuity examples. *)
From HV Require Import Base.Prelude Model.Store Proofs.Store Proofs.StoreOps Proofs.StoreInv.

Local Open Scope N_scope.

(* the state after CreateForWrite (superblock version sb) and the history h; bp / ba = the two error-path
   patches (fix e5d916a, link pre-check, attrinfo-check-before-dense-write) present or not *)
Definition reach (bp ba : bool) (sb : N) (h : list op) : state := run (init (gcfg bp ba) sb) h.

Section WithPatches.
Variables bp ba : bool.
Notation reach := (reach bp ba).
Notation st_ok := (st_ok bp ba).

Lemma reach_ok : forall sb h, st_ok (reach sb h).
Proof. intros. apply run_ok, init_ok. Qed.

(* ------------------------------------------------------------------ C05 (extent part) *)

Lemma C05_extents_disjoint_inbounds_l : forall sb h,
  let s := reach sb h in
  ovf (st s) = false ->
  NoOverlap (exts (st s)) /\
  Forall (fun e => ext_end e <= next (al (st s))) (exts (st s)) /\
  (closed s = true -> Forall (fun e => ext_end e <= fsize (st s)) (exts (st s))).
Proof.
  intros sb h s Hov. pose proof (reach_ok sb h) as Hs. fold s in Hs.
  destruct (ok_ext _ _ _ Hs Hov) as [HF HN]. repeat split; auto.
  intros Hc. pose proof (ok_closed _ _ _ Hs Hc Hov). eapply Forall_impl; [|exact HF]. cbn. intros; lia.
Qed.

(* allocator monotone; every block was handed out at the then end of file *)
Lemma C05_allocate_fresh_l : forall s o k n e s', ext_ok s -> alloc_ext s o k n = Some (e, s') -> ovf s' = false ->
  start e = next (al s) /\ next (al s') = next (al s) + n /\ Forall (fun e' => edisj e e') (exts s).
Proof.
  intros s o k n e s' Hok Ha Hov.
  destruct (alloc_ext_next _ _ _ _ _ _ Ha Hov) as [Hov0 Hn].
  destruct (alloc_ext_spec _ _ _ _ _ _ Ha) as (_ & He & _).
  destruct (Hok Hov0) as [HF _]. subst e. cbn. repeat split; auto.
  eapply Forall_impl; [|exact HF]. intros a Ha'. right. cbn. exact Ha'.
Qed.

(* ------------------------------------------------------------------ C04 *)

Lemma C04_header_rewrite_within_reservation_l : forall x k m w,
  hdr_write x k m = Some w -> w = CWrite x k 0 (hdr_size m) /\ hdr_size m <= max_hdr.
Proof. intros x k m w H. destruct (hdr_write_spec _ _ _ _ H) as [A B]. split; [exact A | apply hdr_size_le_reserved; exact B]. Qed.

Lemma C04_writes_within_owned_l : forall sb h o,
  let s := reach sb h in let s' := fst (step s o) in
  ovf (st s') = false ->
  forall w, In w (wlog (st s')) ->
  exists e, In e (exts (st s')) /\ start e <= fst w /\ fst w + snd w <= ext_end e /\
            (targets s o (owner e) (kind_of e) = true \/ next (al (st s)) <= start e).
Proof. intros sb h o s s' Hov w Hw. apply (step_writes_legal bp ba s o (reach_ok sb h) Hov w Hw). Qed.

Lemma C04_frame_l : forall sb h o,
  let s := reach sb h in let s' := fst (step s o) in
  ovf (st s') = false ->
  forall e', In e' (exts (st s)) -> targets s o (owner e') (kind_of e') = false ->
  forall w, In w (wlog (st s')) -> fst w + snd w <= start e' \/ ext_end e' <= fst w.
Proof. intros sb h o s s' Hov e' Hin HT w Hw. apply (step_frame bp ba s o (reach_ok sb h) Hov e' Hin HT w Hw). Qed.

Lemma C04_frame_other_objects_l : forall sb h o y,
  let s := reach sb h in let s' := fst (step s o) in
  ovf (st s') = false -> (forall k, targets s o y k = false) ->
  forall e', In e' (exts (st s)) -> owner e' = y ->
  In e' (exts (st s')) /\ forall w, In w (wlog (st s')) -> fst w + snd w <= start e' \/ ext_end e' <= fst w.
Proof.
  intros sb h o y s s' Hov HT e' Hin Hy. split.
  - apply (step_exts_incl bp ba s o (reach_ok sb h) Hov). exact Hin.
  - intros w Hw. apply (step_frame bp ba s o (reach_ok sb h) Hov e' Hin); auto. rewrite Hy. apply HT.
Qed.

(* ------------------------------------------------------------------ C10 *)

Lemma C10_reopen_preserves_l : forall sb h,
  let s := reach sb h in let s1 := fst (step s OpReopen) in
  ovf (st s1) = false ->
  (NoOverlap (exts (st s1)) /\ Forall (fun e => ext_end e <= next (al (st s1))) (exts (st s1))) /\
  incl (exts (st s)) (exts (st s1)) /\
  forall o k n e s2, alloc_ext (st s1) o k n = Some (e, s2) -> ovf s2 = false ->
    forall e', In e' (exts (st s)) -> edisj e e'.
Proof.
  intros sb h s s1 Hov. pose proof (reach_ok sb h) as Hs. fold s in Hs.
  destruct (reopen_alloc_disjoint bp ba s Hs) as [Hs1 Hd]. fold s1 in Hs1, Hd.
  destruct (ok_ext _ _ _ Hs1 Hov) as [HF HN]. split; [split; assumption|]. split.
  - apply (step_exts_incl bp ba s OpReopen Hs Hov).
  - exact Hd.
Qed.

Lemma C10_noop_session_l : forall sb h0 h,
  let s := reach sb h0 in
  closed s = true -> ovf (st s) = false ->
  all_quiet s (OpReopen :: h ++ [OpClose]) ->
  let s' := run s (OpReopen :: h ++ [OpClose]) in
  fsize (st s') = fsize (st s) /\ exts (st s') = exts (st s) /\
  next (al (st s')) = next (al (st s)) /\ run_writes s (OpReopen :: h ++ [OpClose]) = [].
Proof. intros sb h0 h s Hc Ho Hq. apply (noop_session bp ba); auto. apply reach_ok. Qed.

(* which calls are quiet: every call refused by validation, and every failing call that is not a creation,
   a new attribute, a hard link or a chunked write *)
Lemma C10_failed_call_is_quiet_l : forall sb h o,
  let s := reach sb h in
  is_session_op o = false -> op_fails s o -> may_leave_bytes bp ba o = false -> quiet_step s o.
Proof.
  intros sb h o s Eo Hf Hm. pose proof (reach_ok sb h) as Hs. fold s in Hs.
  pose proof (compile_good _ _ s o (ok_objs _ _ _ Hs) (ok_conf _ _ _ Hs)) as G.
  unfold op_fails in Hf. destruct o; try discriminate; cbn [quiet_step];
    destruct (compile s _) as [[cmds ok] upd]; cbn in Hf |- *; subst ok; destruct G as (_ & _ & _ & G & _); apply G; auto.
Qed.

(* ------------------------------------------------------------------ C16 *)

Lemma C16_failed_call_frame_l : forall sb h o,
  let s := reach sb h in let s' := fst (step s o) in
  is_session_op o = false -> op_fails s o -> ovf (st s') = false ->
  forall w, In w (wlog (st s')) ->
  exists e, In e (exts (st s')) /\ start e <= fst w /\ fst w + snd w <= ext_end e /\
            (fail_targets o (owner e) (kind_of e) = true \/ next (al (st s)) <= start e).
Proof. intros sb h o s s' Eo Hf Hov w Hw. apply (step_fail_legal bp ba s o (reach_ok sb h) Eo Hf Hov w Hw). Qed.

Lemma C16_failed_call_quiet_l : forall sb h o,
  let s := reach sb h in
  is_session_op o = false -> op_fails s o -> may_leave_bytes bp ba o = false ->
  st (fst (step s o)) = clear_log (st s) /\ objs (fst (step s o)) = objs s.
Proof. intros sb h o s Eo Hf Hm. apply (step_fail_quiet bp ba); auto. apply reach_ok. Qed.

Lemma C16_failed_call_bookkeeping_l : forall sb h o,
  let s := reach sb h in
  is_session_op o = false -> op_fails s o -> (forall p nl dup t, o <> OpHardLink p nl dup t) ->
  objs (fst (step s o)) = objs s.
Proof. intros sb h o s Eo Hf Hn. apply step_fail_objs; auto. Qed.

End WithPatches.

(* ================================================================== witnesses (concrete configurations) *)

Lemma forallb_false : forall A (f : A -> bool) l, forallb f l = false -> exists x, In x l /\ f x = false.
Proof.
  induction l as [|a r IH]; intros H; [discriminate|]. cbn in H. apply andb_false_iff in H. destruct H as [H|H].
  - exists a. split; [left; reflexivity | exact H].
  - destruct (IH H) as (x & Hx & Hf). exists x. split; [right; exact Hx | exact Hf].
Qed.

Lemma frame_b_false : forall s o, frame_b s o = false ->
  exists e' w, In e' (exts (st s)) /\ targets s o (owner e') (kind_of e') = false /\
               In w (wlog (st (fst (step s o)))) /\
               ~ (fst w + snd w <= start e' \/ ext_end e' <= fst w).
Proof.
  intros s o H. unfold frame_b in H. apply forallb_false in H. destruct H as (w & Hw & H).
  apply forallb_false in H. destruct H as (e' & He & H). apply orb_false_iff in H. destruct H as [H1 H2].
  exists e', w. repeat split; auto. intros D. unfold misses in H2. apply orb_false_iff in H2. destruct H2 as [A B].
  apply N.leb_gt in A. apply N.leb_gt in B. lia.
Qed.

(* headers allocated at their exact initial size (the code before fix 9ee6197): create a, create b,
   attribute on a -- the rewritten header of a runs into b's data extent *)
Fixpoint all_ok_pre (s : state) (h : list op) : bool :=
  match h with [] => true | o :: r => snd (step s o) && all_ok_pre (fst (step s o)) r end.

Definition hist_exact : list op := [OpMkContig 0 1 false 12 1 8; OpMkContig 0 1 false 12 1 16].
Lemma C04_refuted_exact_size_headers_l :
  let s := run (init cfg_exact_hdr 2) hist_exact in let o := OpAttrSet 1 None 43 true in
  snd (step s o) = true /\
  exists e' w, In e' (exts (st s)) /\ targets s o (owner e') (kind_of e') = false /\
               In w (wlog (st (fst (step s o)))) /\ ~ (fst w + snd w <= start e' \/ ext_end e' <= fst w).
Proof. intros s o. split; [vm_compute; reflexivity|]. apply frame_b_false. vm_compute. reflexivity. Qed.

(* link object headers allocated at exact size (/repo before fix 0d24a11):
   dataset x, soft link s, dataset b, hard link to s -- the link header with its new reference-count
   message runs into b's data extent *)
Definition hist_link : list op := [OpMkContig 0 1 false 12 1 8; OpMkLink 0 1 false 14; OpMkContig 0 1 false 12 1 16].
Lemma C04_refuted_exact_size_link_headers_l :
  let s := run (init cfg_repo 2) hist_link in let o := OpHardLink 0 1 false 2 in
  snd (step s o) = true /\
  exists e' w, In e' (exts (st s)) /\ targets s o (owner e') (kind_of e') = false /\
               In w (wlog (st (fst (step s o)))) /\ ~ (fst w + snd w <= start e' \/ ext_end e' <= fst w).
Proof. intros s o. split; [vm_compute; reflexivity|]. apply frame_b_false. vm_compute. reflexivity. Qed.

(* dense group headers allocated at their exact size (/repo before 18bfe7a): dataset a, dense group d with one link,
   dataset b, first hard link to d -- the header of d with its new reference-count message runs into b's data extent *)
Definition hist_dense_group : list op := [OpMkContig 0 1 false 12 1 8; OpMkDense 0 1 false 1 true; OpMkContig 0 1 false 12 1 16].
Lemma C04_refuted_exact_size_dense_group_header_l :
  let s := run (init cfg_exact_dense 2) hist_dense_group in let o := OpHardLink 0 1 false 2 in
  all_ok_pre (init cfg_exact_dense 2) hist_dense_group = true /\ snd (step s o) = true /\
  exists e' w, In e' (exts (st s)) /\ targets s o (owner e') (kind_of e') = false /\
               In w (wlog (st (fst (step s o)))) /\ ~ (fst w + snd w <= start e' \/ ext_end e' <= fst w).
Proof. intros s o. split; [vm_compute; reflexivity|]. split; [vm_compute; reflexivity|]. apply frame_b_false. vm_compute. reflexivity. Qed.

(* the same history and call with the reservation of 18bfe7a: nothing outside the targets is touched *)
Lemma C04_dense_group_header_reserved_l :
  let s := run (init cfg_fixed 2) hist_dense_group in let o := OpHardLink 0 1 false 2 in
  snd (step s o) = true /\ frame_b s o = true /\
  find_ext (exts (st s)) 2 KHeader = Some (mkExt 531033 max_hdr 2 KHeader).
Proof. intros s o. vm_compute. repeat split; reflexivity. Qed.

Lemma no_overlap_b_complete : forall l, NoOverlap l -> no_overlap_b l = true.
Proof.
  induction 1 as [|e r HF HN IH]; [reflexivity|]. cbn [no_overlap_b]. rewrite IH, andb_true_r.
  apply forallb_forall. intros x Hx. rewrite Forall_forall in HF. specialize (HF x Hx).
  unfold disj. apply orb_true_iff. destruct HF as [D|D]; [left|right]; apply N.leb_le; exact D.
Qed.

(* without the extension step in Close (the code before fix 72cccd1): create a, reopen, create a group --
   the reserved tail of a's header is handed out again and written over *)
Definition hist_noext : list op := [OpMkContig 0 1 false 12 1 8; OpReopen].
Lemma C10_refuted_without_extend_l :
  let s := run (init cfg_no_extend 2) hist_noext in let o := OpMkGroup 0 1 false in
  ~ NoOverlap (exts (st (fst (step s o)))) /\
  exists e' w, In e' (exts (st s)) /\ targets s o (owner e') (kind_of e') = false /\
               In w (wlog (st (fst (step s o)))) /\ ~ (fst w + snd w <= start e' \/ ext_end e' <= fst w).
Proof.
  intros s o. split.
  - intros H. apply no_overlap_b_complete in H. vm_compute in H. discriminate.
  - apply frame_b_false. vm_compute. reflexivity.
Qed.

(* without the link pre-check a failing creation in a reopened session is not quiet: the file grows by the
   orphan structures *)
Definition hist_sess1 : list op := [OpMkContig 0 1 false 12 1 8; OpClose].
Lemma C10_noop_refuted_failed_creation_l :
  let s := reach false false 2 hist_sess1 in let sess := [OpReopen; OpMkGroup 0 1 false; OpClose] in
  closed s = true /\ snd (step (fst (step s OpReopen)) (OpMkGroup 0 1 false)) = false /\
  fsize (st s) < fsize (st (run s sess)) /\ objs (run s sess) = objs s.
Proof. intros s sess. vm_compute. repeat split; reflexivity. Qed.

(* with the pre-check the same session is quiet *)
Lemma C10_failed_creation_quiet_with_precheck_l :
  let s := reach true true 2 hist_sess1 in
  all_quiet s (OpReopen :: [OpMkGroup 0 1 false; OpMkContig 0 1 false 12 1 8; OpHardLink 0 1 false 1] ++ [OpClose]).
Proof. intros s. vm_compute. repeat split; reflexivity. Qed.

(* the exception: a hard link that fails in linkToParent (duplicate name here) leaves the reference-count
   message it added in the target's header *)
Definition hist_hl : list op := [OpMkContig 0 1 false 12 1 8].
Lemma C16_hardlink_residue_l :
  let s := reach false false 2 hist_hl in let o := OpHardLink 0 1 true 1 in
  snd (step s o) = false /\
  option_map o_msgs (get_obj (objs s) 1) = Some [(M_DATATYPE, 12); (M_DATASPACE, 16); (M_LAYOUT, 18)] /\
  option_map o_msgs (get_obj (objs (fst (step s o))) 1)
    = Some [(M_DATATYPE, 12); (M_DATASPACE, 16); (M_LAYOUT, 18); (M_REFCOUNT, 4)] /\
  wlog (st (fst (step s o))) = [(2203, 73); (2203, 73)].
Proof. intros s o. vm_compute. repeat split; reflexivity. Qed.

(* with both patches in, the only failing calls that can leave bytes behind are a contiguous creation whose
   header does not fit one chunk (its data block is allocated first), a chunked write with an empty chunk
   (fixed-size or variable-length elements), and CreateDenseGroup (it has no link pre-check: it looks the parent
   up and links after everything was written) *)
Lemma C16_patched_failing_calls_l : forall o,
  may_leave_bytes true true o = true ->
  (exists p nl dup ldt rank dsize, o = OpMkContig p nl dup ldt rank dsize) \/ (exists x sizes, o = OpWrite x sizes) \/
  (exists x lens sizes, o = OpWriteVL x lens sizes) \/ (exists p nl dup n fit, o = OpMkDense p nl dup n fit).
Proof.
  intros o H. destruct o; cbn in H; try discriminate.
  - left. repeat eexists.
  - right. left. repeat eexists.
  - destruct idx; discriminate.
  - right. right. right. repeat eexists.
  - right. right. left. repeat eexists.
Qed.

(* a dataset whose header leaves no room for the attribute info message (rank 10, resizable): without the
   early check every attribute call fails after allocating and writing the dense storage (5 orphan extents,
   the first one being the allocator advance past the header end); with the check the call is quiet *)
Definition hist_r10 : list op := [OpMkChunked 0 1 false 12 10 true 0].
Lemma C16_transition_orphans_l :
  let o := OpAttrSet 1 None 42 true in
  (let s := reach false false 2 hist_r10 in
   snd (step s o) = false /\ List.length (exts (st (fst (step s o)))) = (List.length (exts (st s)) + 5)%nat /\
   fsize (st s) + 65536 < fsize (st (fst (step s o))) /\ objs (fst (step s o)) = objs s) /\
  (let s := reach true true 2 hist_r10 in
   snd (step s o) = false /\ st (fst (step s o)) = clear_log (st s) /\ objs (fst (step s o)) = objs s).
Proof. intros o. vm_compute. repeat split; reflexivity. Qed.

(* ------------------------------------------------------------------ non-vacuity *)

(* six operations, all succeed: dataset, group, chunked dataset in the group, chunked write,
   attribute on the first dataset, hard link to it from the group *)
Definition hist6 : list op :=
  [OpMkContig 0 1 false 12 1 12; OpMkGroup 0 1 false; OpMkChunked 2 1 false 20 2 false 0;
   OpWrite 3 [64; 64; 64; 64]; OpAttrSet 1 None 43 true; OpHardLink 2 1 false 1].

Fixpoint all_ok (s : state) (h : list op) : bool :=
  match h with [] => true | o :: r => snd (step s o) && all_ok (fst (step s o)) r end.

Example hist6_runs :
  all_ok (init cfg_fixed 2) hist6 = true /\ all_ok (init cfg_head 0) hist6 = true /\
  ovf (st (reach true true 2 hist6)) = false /\ List.length (exts (st (reach true true 2 hist6))) = 17%nat /\
  wlog (st (reach true true 2 hist6)) <> [] /\ store_ok_b (st (reach false false 2 hist6)) = true.
Proof. vm_compute. repeat split; try reflexivity. discriminate. Qed.

(* nine attributes: the ninth triggers the dense transition, which succeeds and allocates four extents *)
Definition hist_dense : list op :=
  OpMkContig 0 1 false 12 1 8 :: repeat (OpAttrSet 1 None 20 true) 9.
Example hist_dense_runs :
  all_ok (init cfg_fixed 2) hist_dense = true /\
  List.length (exts (st (reach true true 2 hist_dense))) = 11%nat /\
  option_map o_nrec (get_obj (objs (reach true true 2 hist_dense)) 1) = Some 9.
Proof. vm_compute. repeat split; reflexivity. Qed.

(* the hypotheses of the failing-call theorem are satisfiable with a non-empty write set *)
Example failing_call_exists :
  let s := reach false false 2 hist_hl in let o := OpMkGroup 0 1 true in
  op_fails s o /\ snd (step s o) = false /\ wlog (st (fst (step s o))) <> [] /\ ovf (st (fst (step s o))) = false.
Proof. intros s o. vm_compute. repeat split; try reflexivity. discriminate. Qed.

(* a quiet session exists: reopen, a refused call, a failing delete, close *)
Example quiet_session_exists :
  let s := reach true true 2 hist_sess1 in
  all_quiet s (OpReopen :: [OpReject; OpAttrDel 1 None] ++ [OpClose]).
Proof. intros s. vm_compute. repeat split; reflexivity. Qed.

(* ------------------------------------------------------------------ the paths added later: dense groups, variable-length data *)

Lemma kind_eq_dec : forall a b : kind, {a = b} + {a <> b}.
Proof. decide equality. apply N.eq_dec. Qed.
Lemma e_eq_dec : forall a b : extent, {a = b} + {a <> b}.
Proof. decide equality; try apply N.eq_dec. apply kind_eq_dec. Qed.

(* the lazy flush of a global heap collection (at roll-over, at Close) is one write of exactly the collection's extent:
   the size recorded by createNewHeap is the size it allocated *)
Lemma C05_gcol_flush_within_extent_l : forall bp ba sb h o w,
  let s := reach bp ba sb h in let s' := fst (step s o) in
  ovf (st s') = false -> In w (wlog (st s')) ->
  forall e, In e (exts (st s')) -> is_gcol (kind_of e) = true -> start e <= fst w -> fst w < ext_end e ->
  fst w + snd w <= ext_end e.
Proof.
  intros bp ba sb h o w s s' Hov Hw e Hin Hk H1 H2.
  destruct (C04_writes_within_owned_l bp ba sb h o Hov w Hw) as (e0 & Hin0 & A & B & _). fold s s' in Hin0.
  destruct (e_eq_dec e0 e) as [->|Hne]; [exact B|].
  pose proof (step_ok bp ba s o (reach_ok bp ba sb h)) as Hs'. fold s' in Hs'.
  destruct (ok_ext _ _ _ Hs' Hov) as [_ HN].
  destruct (NoOverlap_In _ _ _ HN Hin0 Hin Hne) as [D|D]; unfold ext_end in *.
  - assert (snd w = 0 \/ 0 < snd w) as [Z|Z] by lia; lia.
  - lia.
Qed.

(* a variable-length history: two datasets share the file's heap writer; the second write rolls the first collection
   over (flush of an extent allocated by an earlier call), Close flushes the last one *)
Definition hist_vlen : list op :=
  [OpMkContig 0 1 false 32 1 32; OpMkContig 0 1 false 32 1 16;
   OpWriteVL 1 [3000; 0] []; OpWriteVL 2 [2000] []; OpClose].
Example hist_vlen_runs :
  all_ok_pre (init cfg_fixed 2) hist_vlen = true /\
  (let s := reach true true 2 (firstn 3 hist_vlen) in
   gh s = Some (4096, 1048) /\ wlog (st (fst (step s (OpWriteVL 2 [2000] [])))) = [(2489, 16); (2767, 4096)] /\
   frame_b s (OpWriteVL 2 [2000] []) = true) /\
  (let s := reach true true 2 (firstn 4 hist_vlen) in
   gh s = Some (4096, 2064) /\ wlog (st (fst (step s OpClose))) = [(0, 48); (6863, 4096)] /\ frame_b s OpClose = true) /\
  store_ok_b (st (reach true true 2 hist_vlen)) = true.
Proof. vm_compute. repeat split; reflexivity. Qed.

(* dense groups: created with 1 and with 12 links, hard link to one of them, a refused duplicate leaves its
   five extents behind (no pre-check on this path) *)
Definition hist_dg : list op :=
  [OpMkContig 0 1 false 12 1 8; OpMkDense 0 2 false 1 true; OpMkDense 0 2 false 12 true; OpHardLink 0 3 false 2].
Example hist_dg_runs :
  all_ok_pre (init cfg_fixed 2) hist_dg = true /\ store_ok_b (st (reach true true 2 hist_dg)) = true /\
  (let s := reach true true 2 hist_dg in let o := OpMkDense 0 2 true 1 true in
   snd (step s o) = false /\ List.length (exts (st (fst (step s o)))) = (List.length (exts (st s)) + 5)%nat /\
   objs (fst (step s o)) = objs s /\ ovf (st (fst (step s o))) = false).
Proof. vm_compute. repeat split; reflexivity. Qed.
