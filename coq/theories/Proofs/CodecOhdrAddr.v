(* C11: object header round trips at every address; decoding is independent of the address. *)
From HV Require Import Base.Prelude Base.Outcome Base.Bytes Model.CodecOhdr Model.CodecOhdrAddr Proofs.CodecOhdr.

Lemma msgs_at_v1_shift ms : forall c d, msgs_at_v1 ms (c + d) = map (shift_msg d) (msgs_at_v1 ms c).
Proof.
  induction ms as [|m r IH]; intros c d; cbn [msgs_at_v1 map]; [reflexivity|].
  unfold shift_msg at 1. cbn [hmp_type hmp_offset hmp_data]. f_equal.
  rewrite <- IH. f_equal. blia.
Qed.

Lemma msgs_at_v2_shift ms : forall c d, msgs_at_v2 ms (c + d) = map (shift_msg d) (msgs_at_v2 ms c).
Proof.
  induction ms as [|m r IH]; intros c d; cbn [msgs_at_v2 map]; [reflexivity|].
  unfold shift_msg at 1. cbn [hmp_type hmp_offset hmp_data]. f_equal.
  rewrite <- IH. f_equal. blia.
Qed.

Lemma name_v1_shift d ms : name_v1 (map (shift_msg d) ms) = name_v1 ms.
Proof.
  unfold name_v1. generalize (@nil byte) as acc.
  induction ms as [|m r IH]; intros acc; cbn [map fold_left]; [reflexivity|].
  rewrite IH. unfold shift_msg. cbn [hmp_type hmp_data]. reflexivity.
Qed.

Lemma name_v2_shift d ms : name_v2 (map (shift_msg d) ms) = name_v2 ms.
Proof.
  unfold name_v2. generalize (@nil byte) as acc.
  induction ms as [|m r IH]; intros acc; cbn [map fold_left]; [reflexivity|].
  rewrite IH. unfold shift_msg. cbn [hmp_type hmp_data]. reflexivity.
Qed.

Lemma refcount_v2_shift d be ms : refcount_v2 (map (shift_msg d) ms) be = refcount_v2 ms be.
Proof.
  induction ms as [|m r IH]; cbn [map refcount_v2]; [reflexivity|].
  rewrite IH. unfold shift_msg. cbn [hmp_type hmp_data]. reflexivity.
Qed.

Lemma proj_ohdr_v1_shift x addr : proj_ohdr_v1 x addr = shift_ohdr addr (proj_ohdr_v1 x 0).
Proof.
  unfold proj_ohdr_v1, shift_ohdr. cbn [ohp_version ohp_flags ohp_refcount ohp_name ohp_msgs].
  replace (addr + 16) with (0 + 16 + addr) by blia.
  rewrite msgs_at_v1_shift, name_v1_shift. reflexivity.
Qed.

Lemma proj_ohdr_v2_shift be x addr : proj_ohdr_v2 be x addr = shift_ohdr addr (proj_ohdr_v2 be x 0).
Proof.
  unfold proj_ohdr_v2, shift_ohdr. cbn [ohp_version ohp_flags ohp_refcount ohp_name ohp_msgs].
  replace (addr + 7) with (0 + 7 + addr) by blia.
  rewrite msgs_at_v2_shift, name_v2_shift, refcount_v2_shift. reflexivity.
Qed.

Lemma unplace_msgs_at_v1 ms : forall c, map unplace (msgs_at_v1 ms c) = ms.
Proof.
  induction ms as [|m r IH]; intros c; cbn [msgs_at_v1 map]; [reflexivity|].
  rewrite IH. destruct m; reflexivity.
Qed.

Lemma unplace_msgs_at_v2 ms : forall c, map unplace (msgs_at_v2 ms c) = ms.
Proof.
  induction ms as [|m r IH]; intros c; cbn [msgs_at_v2 map]; [reflexivity|].
  rewrite IH. destruct m; reflexivity.
Qed.

(* ---- version 1, every address ---- *)
Lemma ohdr_v1_roundtrip_any_address addr x (pre suf : list N) :
  blen pre = addr ->
  wf_ohdr_v1 x = true ->
  addr + size_ohdr_v1 x + 16 < 9223372036854775808 ->
  dec_ohdr false (pre ++ enc_ohdr_v1 x ++ suf) addr = Ok (proj_ohdr_v1 x addr).
Proof. intros <- Hwf Hs. apply ohdr_v1_roundtrip; assumption. Qed.

(* the decoded messages are the encoded ones, whatever the address *)
Lemma ohdr_v1_roundtrip_messages addr x (pre suf : list N) :
  blen pre = addr ->
  wf_ohdr_v1 x = true ->
  addr + size_ohdr_v1 x + 16 < 9223372036854775808 ->
  exists o, dec_ohdr false (pre ++ enc_ohdr_v1 x ++ suf) addr = Ok o /\
            map unplace (ohp_msgs o) = oh_msgs x /\ ohp_refcount o = oh_refcount x /\ ohp_version o = 1.
Proof.
  intros Ha Hwf Hs. exists (proj_ohdr_v1 x addr). split; [apply ohdr_v1_roundtrip_any_address; assumption|].
  unfold proj_ohdr_v1. cbn [ohp_msgs ohp_refcount ohp_version]. rewrite unplace_msgs_at_v1. auto.
Qed.

Lemma ohdr_v1_address_independent x (pre suf : list N) :
  wf_ohdr_v1 x = true ->
  blen pre + size_ohdr_v1 x + 16 < 9223372036854775808 ->
  dec_ohdr false (pre ++ enc_ohdr_v1 x ++ suf) (blen pre)
  = omap (shift_ohdr (blen pre)) (dec_ohdr false (enc_ohdr_v1 x ++ suf) 0).
Proof.
  intros Hwf Hs.
  unfold enc_ohdr_v1, v1_size_field_repaired.
  rewrite (ohdr_v1_roundtrip x pre suf Hwf Hs).
  pose proof (ohdr_v1_roundtrip x [] suf Hwf) as H0.
  change (blen []) with 0 in H0. cbn [app] in H0. rewrite H0 by blia.
  cbn [omap]. rewrite proj_ohdr_v1_shift. reflexivity.
Qed.

Lemma ohdr_v2_address_independent x (pre suf : list N) sbBE :
  wf_ohdr_v2 x = true -> 1 <= blen suf ->
  blen pre + size_ohdr_v2 x + 8 < 9223372036854775808 ->
  dec_ohdr sbBE (pre ++ enc_ohdr_v2 x ++ suf) (blen pre)
  = omap (shift_ohdr (blen pre)) (dec_ohdr sbBE (enc_ohdr_v2 x ++ suf) 0).
Proof.
  intros Hwf H1 Hs.
  rewrite (ohdr_v2_roundtrip x pre suf sbBE Hwf H1 Hs).
  pose proof (ohdr_v2_roundtrip x [] suf sbBE Hwf H1) as H0.
  change (blen []) with 0 in H0. cbn [app] in H0. rewrite H0 by blia.
  cbn [omap]. rewrite proj_ohdr_v2_shift. reflexivity.
Qed.

(* hypotheses are satisfiable at an address that is not a multiple of 8: the dataset header of the seeded
   demonstration at address 99 *)
Lemma ohdr_v1_dataset_wf : wf_ohdr_v1 ohdr_v1_dataset = true /\ (99 mod 8 =? 0) = false /\
  99 + size_ohdr_v1 ohdr_v1_dataset + 16 < 9223372036854775808.
Proof. vm_compute. repeat split; reflexivity. Qed.

Lemma ohdr_v1_dataset_at_99 :
  dec_ohdr false (repeat 255 99 ++ enc_ohdr_v1 ohdr_v1_dataset ++ repeat 255 9) 99
  = Ok (proj_ohdr_v1 ohdr_v1_dataset 99) /\
  map hmp_offset (ohp_msgs (proj_ohdr_v1 ohdr_v1_dataset 99)) = [115; 139; 171].
Proof. split; vm_compute; reflexivity. Qed.

(* ---- the reader that aligns to absolute addresses loses messages at every unaligned address ---- *)
Lemma ohdr_v1_abs_refuted :
  forall k, In k [1; 2; 3; 4; 5; 6; 7; 99; 4097; 4099; 4103] ->
  exists o, parse_v1_abs (repeat 255 (N.to_nat k) ++ enc_ohdr_v1 ohdr_v1_dataset ++ repeat 0 64) k 0 false = Ok o /\
            map unplace (ohp_msgs o) <> oh_msgs ohdr_v1_dataset /\
            parse_v1 (repeat 255 (N.to_nat k) ++ enc_ohdr_v1 ohdr_v1_dataset ++ repeat 0 64) k 0 false
            = Ok (proj_ohdr_v1 ohdr_v1_dataset k).
Proof.
  intros k Hk. cbn [In] in Hk.
  repeat (destruct Hk as [<- | Hk];
          [eexists; split; [vm_compute; reflexivity | split; [vm_compute; discriminate | vm_compute; reflexivity]]|]).
  destruct Hk.
Qed.

Lemma ohdr_v1_abs_agrees_aligned :
  forall k, In k [0; 8; 96; 4096] ->
  parse_v1_abs (repeat 255 (N.to_nat k) ++ enc_ohdr_v1 ohdr_v1_dataset ++ repeat 0 64) k 0 false
  = Ok (proj_ohdr_v1 ohdr_v1_dataset k).
Proof.
  intros k Hk. cbn [In] in Hk.
  repeat (destruct Hk as [<- | Hk]; [vm_compute; reflexivity|]).
  destruct Hk.
Qed.
