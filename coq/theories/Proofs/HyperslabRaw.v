(* C09: the recursive extraction (compact layout, selection-run path) and the 2-D element-wise
   path return the selection in row-major order. General in the rank. *)
From HV Require Import Base.Prelude Model.Hyperslab Proofs.HyperslabBase.

(* ---------------------------------------------------------------- the two nested loops *)
Definition axis_cbx (a : axis) : list (N * N * N) :=
  flat_map (fun c => map (fun b => (c, b, a_start a + c * a_stride a + b)) (nrange (a_block a)))
           (nrange (a_count a)).

Lemma axis_loop_cbx {S} a (body : N -> N -> N -> S -> S) st :
  axis_loop a body st
  = fold_left (fun st t => body (fst (fst t)) (snd (fst t)) (snd t) st) (axis_cbx a) st.
Proof.
  unfold axis_loop, axis_cbx. rewrite fold_left_flat_map.
  apply fold_left_ext_in. intros st0 c _. rewrite fold_left_map. reflexivity.
Qed.

Lemma axis_loop_idx {S} a (g : N -> S -> S) st :
  axis_loop a (fun _ _ x st => g x st) st = fold_left (fun st x => g x st) (axis_idx a) st.
Proof.
  unfold axis_loop, axis_idx. rewrite fold_left_flat_map.
  apply fold_left_ext_in. intros st0 c _. rewrite fold_left_map. reflexivity.
Qed.

Lemma axis_cbx_idx a : map snd (axis_cbx a) = axis_idx a.
Proof.
  unfold axis_cbx, axis_idx. rewrite map_flat_map. apply flat_map_ext_in. intros c _.
  rewrite map_map. reflexivity.
Qed.

(* ---------------------------------------------------------------- extractHyperslabRecursive *)
Lemma ext_rec_spec raw dims : forall s rdims pre st, axes_valid s rdims ->
  ext_rec raw dims s rdims pre st
  = fold_left (fun st x => ext_leaf raw dims (pre ++ x) st) (sel_coords s) st.
Proof.
  induction s as [|a s IH]; intros rdims pre st V; inversion V as [|? y ? l' H1 H2]; subst.
  - cbn [ext_rec sel_coords fold_left]. rewrite app_nil_r. reflexivity.
  - cbn [ext_rec sel_coords].
    rewrite (axis_loop_idx a (fun x st0 => if y <=? x then st0 else ext_rec raw dims s l' (pre ++ [x]) st0)).
    rewrite fold_left_flat_map. apply fold_left_ext_in. intros st0 x Hx.
    destruct (axis_idx_bound a y x H1 Hx) as (_ & _ & Hlt).
    destruct (N.leb_spec y x); [lia|].
    rewrite IH by assumption. rewrite fold_left_map.
    apply fold_left_ext_in. intros st1 z _. rewrite <- app_assoc. reflexivity.
Qed.

Definition write (st : list N * N) (v : N) : list N * N := (upd (fst st) (snd st) v, snd st + 1).

Lemma ext_leaf_fold raw dims (L : list (list N)) st :
  (forall x, In x L -> length x = length dims /\ lin dims x < lenN raw) ->
  fold_left (fun st x => ext_leaf raw dims x st) L st
  = fold_left write (map (fun x => nthN raw (lin dims x)) L) st.
Proof.
  intros H. rewrite fold_left_map. apply fold_left_ext_in. intros st0 x Hx.
  destruct (H x Hx) as (Hl & Hb). unfold ext_leaf, write. rewrite calc_lin_spec by assumption.
  destruct (N.ltb_spec (lenN raw) (lin dims x + 1)); [lia|reflexivity].
Qed.

Lemma write_all (vals : list N) (n : N) :
  length vals = N.to_nat n -> fst (fold_left write vals (zeros n, 0)) = vals.
Proof. intros H. unfold write. rewrite seq_writes_all by assumption. reflexivity. Qed.

Lemma select_nil full dims s : out_elems s = 0 -> s <> [] -> Forall (fun a => 0 < a_block a) s ->
  select full dims s = [].
Proof.
  intros H Hne Hb. rewrite out_elems_length in H by assumption.
  unfold select. destruct (sel_coords s); [reflexivity|cbn [length] in H; lia].
Qed.

Theorem extract_from_raw_correct full dims s :
  axes_valid s dims -> s <> [] -> lenN full = prodN dims ->
  extract_from_raw full dims s = select full dims s.
Proof.
  intros V Hne Hlen. unfold extract_from_raw.
  pose proof (axes_valid_block _ _ V) as Hb.
  destruct (N.eqb_spec (out_elems s) 0) as [E|E].
  - symmetry. apply select_nil; assumption.
  - rewrite ext_rec_spec by assumption. cbn [app].
    rewrite ext_leaf_fold.
    + unfold select. apply write_all. rewrite map_length, out_elems_length by assumption. lia.
    + intros x Hx. pose proof (sel_coords_inb _ _ _ V Hx) as Hin. split.
      * rewrite (sel_coords_each_length _ _ Hx). apply axes_valid_length; assumption.
      * rewrite Hlen. apply lin_bound; assumption.
Qed.

(* ---------------------------------------------------------------- readContiguous2DOptimized *)
Theorem read_contiguous_2d_correct full d0 d1 a0 a1 :
  axes_valid [a0; a1] [d0; d1] ->
  read_contiguous_2d full d0 d1 a0 a1 = select full [d0; d1] [a0; a1].
Proof.
  intros V. inversion V as [|? ? ? ? V0 V']; subst. inversion V' as [|? ? ? ? V1 V'']; subst. clear V' V''.
  unfold read_contiguous_2d.
  pose proof (axes_valid_block _ _ V) as Hb.
  assert (Hne : [a0; a1] <> []) by discriminate.
  rewrite <- (write_all (select full [d0; d1] [a0; a1]) (out_elems [a0; a1]))
    by (unfold select; rewrite map_length, out_elems_length by assumption; lia).
  f_equal.
  rewrite (axis_loop_idx a0 (fun row st => if d0 <=? row then st else
     axis_loop a1 (fun _ _ col st0 => if d1 <=? col then st0 else
        (upd (fst st0) (snd st0) (nthN full (row * d1 + col)), snd st0 + 1)) st)).
  unfold select. cbn [sel_coords]. rewrite fold_left_map, fold_left_flat_map.
  apply fold_left_ext_in. intros st0 i Hi.
  destruct (axis_idx_bound a0 d0 i V0 Hi) as (_ & _ & Hlt).
  destruct (N.leb_spec d0 i); [lia|].
  rewrite (axis_loop_idx a1 (fun col st1 => if d1 <=? col then st1 else
        (upd (fst st1) (snd st1) (nthN full (i * d1 + col)), snd st1 + 1))).
  rewrite fold_left_map, fold_left_flat_map.
  apply fold_left_ext_in. intros st1 j Hj.
  destruct (axis_idx_bound a1 d1 j V1 Hj) as (_ & _ & Hlt1).
  destruct (N.leb_spec d1 j); [lia|].
  cbn [map fold_left lin prodN]. unfold write. do 2 f_equal. f_equal. lia.
Qed.

(* ---------------------------------------------------------------- the selection-run path *)
Lemma axis_idx_zero a : axis_idx a = map (N.add (a_start a)) (axis_idx (mkAxis 0 (a_count a) (a_stride a) (a_block a))).
Proof.
  unfold axis_idx. cbn [a_start a_count a_stride a_block]. rewrite map_flat_map.
  apply flat_map_ext_in. intros c _. rewrite map_map. apply map_ext. intros b. lia.
Qed.

Lemma sel_coords_zero s :
  sel_coords s = map (vadd (map a_start s)) (sel_coords (zero_start s)).
Proof.
  induction s as [|a s IH]; cbn [sel_coords zero_start map vadd]; [reflexivity|].
  rewrite axis_idx_zero, flat_map_map, map_flat_map. apply flat_map_ext_in. intros i _.
  rewrite IH. fold (zero_start s). rewrite !map_map. reflexivity.
Qed.

Lemma zero_start_valid s dims : axes_valid s dims -> axes_valid (zero_start s) dims.
Proof.
  induction 1 as [|a d s dims H _ IH]; cbn [zero_start map]; constructor; [|assumption].
  destruct H as (H1 & H2 & H3 & H4). repeat split; cbn [a_start a_count a_stride a_block]; lia.
Qed.

Lemma zero_start_le_last : forall s dims x, axes_valid s dims -> In x (sel_coords (zero_start s)) ->
  Forall2 N.le x (last_rel s).
Proof.
  induction s as [|a s IH]; intros dims x V H; inversion V as [|? y ? l' H1 H2]; subst; cbn [zero_start map last_rel] in *.
  - destruct H as [<-|[]]. constructor.
  - apply in_sel_coords_cons in H. destruct H as (i & z & -> & Hi & Hz).
    constructor; [|eapply IH; eassumption].
    assert (V0 : axis_valid (mkAxis 0 (a_count a) (a_stride a) (a_block a)) y).
    { destruct H1 as (A1 & A2 & A3 & A4). repeat split; cbn [a_start a_count a_stride a_block]; lia. }
    destruct (axis_idx_bound _ _ _ V0 Hi) as (_ & Hle & _). cbn [a_start a_count a_stride a_block] in Hle. lia.
Qed.

Lemma start_plus_last_inb : forall s dims, axes_valid s dims ->
  Forall2 N.lt (vadd (map a_start s) (last_rel s)) dims.
Proof.
  induction 1 as [|a d s dims H _ IH]; cbn [map last_rel vadd]; constructor; [|assumption].
  destruct H as (A1 & A2 & A3 & A4). set (m := (a_count a - 1) * a_stride a) in *. lia.
Qed.

Lemma last_rel_length s : length (last_rel s) = length s.
Proof. apply map_length. Qed.

Lemma out_elems_zero_start s : out_elems (zero_start s) = out_elems s.
Proof.
  assert (P : forall l, fold_right (fun a r => a_count a * (if a_block a =? 0 then 1 else a_block a) * r) 1 (zero_start l)
                      = fold_right (fun a r => a_count a * (if a_block a =? 0 then 1 else a_block a) * r) 1 l).
  { induction l as [|b l IH]; cbn [zero_start map fold_right]; [reflexivity|].
    fold (zero_start l). rewrite IH. reflexivity. }
  unfold out_elems. destruct s as [|a s]; [reflexivity|].
  change (zero_start (a :: s)) with (zero_start [a] ++ zero_start s).
  cbn [zero_start map app]. rewrite !out_elems_fold.
  change (map (fun a0 => mkAxis 0 (a_count a0) (a_stride a0) (a_block a0)) s) with (zero_start s).
  rewrite <- (P (a :: s)). reflexivity.
Qed.

Theorem selection_run_correct full dims s :
  axes_valid s dims -> s <> [] -> lenN full = prodN dims ->
  fst (ext_rec (read_at full (calc_lin (map a_start s) dims) (calc_lin (last_rel s) dims + 1))
               dims (zero_start s) dims [] (zeros (out_elems s), 0))
  = select full dims s.
Proof.
  intros V Hne Hlen.
  pose proof (axes_valid_length _ _ V) as Ls.
  pose proof (axes_valid_block _ _ V) as Hb.
  pose proof (zero_start_valid _ _ V) as VZ.
  rewrite !calc_lin_spec by (rewrite ?map_length, ?last_rel_length; assumption).
  set (off := lin dims (map a_start s)). set (rl := lin dims (last_rel s)).
  assert (Hfit : off + (rl + 1) <= lenN full).
  { pose proof (lin_bound _ _ (start_plus_last_inb _ _ V)) as B.
    rewrite lin_vadd in B by (rewrite ?map_length, ?last_rel_length; assumption).
    subst off rl. lia. }
  rewrite ext_rec_spec by assumption. cbn [app].
  rewrite ext_leaf_fold.
  - unfold select. rewrite (sel_coords_zero s), map_map.
    rewrite (map_ext_in (fun x => nthN (read_at full off (rl + 1)) (lin dims x))
                        (fun x => nthN full (lin dims (vadd (map a_start s) x)))).
    + apply write_all. rewrite map_length. rewrite <- out_elems_zero_start.
      rewrite out_elems_length; [lia| |apply (axes_valid_block _ _ VZ)].
      destruct s; [congruence|discriminate].
    + intros x Hx.
      assert (Lx : length x = length dims).
      { rewrite (sel_coords_each_length _ _ Hx). unfold zero_start. rewrite map_length. assumption. }
      rewrite nthN_read_at; try assumption.
      * rewrite lin_vadd by (rewrite ?map_length; lia). reflexivity.
      * pose proof (lin_le_mono dims _ _ (zero_start_le_last _ _ _ V Hx) Lx). subst rl. lia.
  - intros x Hx.
    assert (Lx : length x = length dims).
    { rewrite (sel_coords_each_length _ _ Hx). unfold zero_start. rewrite map_length. assumption. }
    split; [assumption|].
    unfold lenN. rewrite read_at_length by assumption.
    pose proof (lin_le_mono dims _ _ (zero_start_le_last _ _ _ V Hx) Lx). subst rl. lia.
Qed.
