(* History-level theorems of property C02 over Model/Attr.v. *)
From HV Require Import Base.Prelude Model.Attr Proofs.AttrBase Proofs.AttrDense Proofs.AttrStep.
From Coq Require Import Permutation.

(* what the specification demands of the answer [r] of one call when the map is [m]:
   DeleteAttribute succeeds exactly on present names; a value the API cannot encode is refused;
   WriteAttribute may be refused (capacity limits: see write_err_cases), it panics only on a name of
   65535 bytes or more *)
Definition res_ok (m : smap) (o : op) (r : res) : Prop :=
  match o with
  | ODelete n => r = snd (spec_delete m n)
  | OWrite n None => r = RErr
  | OWrite n (Some v) => r = ROk \/ r = RErr \/ (r = RPanic /\ 65535 <= blen n)
  end.

Fixpoint results_ok (m : smap) (h : list op) (rs : list res) : Prop :=
  match h, rs with
  | [], [] => True
  | o :: h', r :: rs' => res_ok m o r /\ results_ok (spec_step m o r) h' rs'
  | _, _ => False
  end.

Lemma NoHashCollision_incl : forall f l1 l2, incl l1 l2 -> NoHashCollision f l2 -> NoHashCollision f l1.
Proof. intros f l1 l2 I H a b Ha Hb E. apply H; [apply I; exact Ha | apply I; exact Hb | exact E]. Qed.

Section Main.
Variable name_hash : bytes -> N.
Variable P : params.
Hypothesis Hcap : p_hcap P <= 65536.

Notation Rep := (Rep name_hash P).
Notation run := (run name_hash P).
Notation step := (step name_hash P).

Lemma run_broken_fst : forall h, fst (run Broken h) = Broken.
Proof.
  induction h as [|o h IH]; cbn [Attr.run]; [reflexivity|].
  assert (E : step Broken o = (Broken, RErr)) by (destruct o as [n [v|]|n]; reflexivity).
  rewrite E. destruct (run Broken h) as [st2 xs]. cbn [fst] in *. exact IH.
Qed.

Lemma run_broken : forall h st rs, run Broken h = (st, rs) -> st = Broken.
Proof. intros h st rs H. pose proof (run_broken_fst h) as E. rewrite H in E. exact E. Qed.

Lemma spec_step_tracks : forall l l' m o r,
  (forall n, attr_get l n = sp_get m n) -> eff l l' o r ->
  (forall n, attr_get l' n = sp_get (spec_step m o r) n) /\ res_ok m o r.
Proof.
  intros l l' m o r T E. destruct r; cbn [eff] in E.
  - destruct o as [n [v|]|n]; cbn [spec_step res_ok].
    + split; [|left; reflexivity]. intro k. rewrite E, sp_get_set, T. reflexivity.
    + destruct E.
    + destruct E as [NN E]. split.
      * intro k. rewrite E, sp_get_del, T. reflexivity.
      * unfold spec_delete. rewrite <- T. destruct (attr_get l n); [reflexivity | congruence].
  - destruct E as [-> E]. split.
    + intro k. destruct o as [n [v|]|n]; cbn [spec_step]; apply T.
    + destruct o as [n [v|]|n]; cbn [res_ok]; [right; left; reflexivity | reflexivity|].
      unfold spec_delete. rewrite <- T, E. reflexivity.
  - destruct E as [-> E]. destruct o as [n [v|]|n]; [|contradiction|contradiction]. split.
    + intro k. cbn [spec_step]. apply T.
    + cbn [res_ok]. right; right. split; [reflexivity | exact E].
Qed.

Lemma run_refines : forall h st l m st' rs,
  Rep st l -> NoDup (map aname l) -> EncAll l -> (forall n, attr_get l n = sp_get m n) ->
  NoHashCollision name_hash (map aname l ++ names h) ->
  run st h = (st', rs) -> st' <> Broken ->
  exists l', Rep st' l' /\ NoDup (map aname l') /\ EncAll l' /\
             (forall n, attr_get l' n = sp_get (run_spec m h rs) n) /\ results_ok m h rs.
Proof.
  induction h as [|o h IH]; intros st l m st' rs R ND EA T NC H NB; cbn [Attr.run] in H.
  - inversion H; subst. exists l. cbn [run_spec results_ok]. tauto.
  - destruct (step st o) as [st1 x] eqn:S. destruct (run st1 h) as [st2 xs] eqn:RN. inversion H; subst st' rs.
    assert (NB1 : st1 <> Broken) by (intro E; subst st1; apply run_broken in RN; contradiction).
    assert (Inj : forall k, In k (map aname l) -> name_hash k = name_hash (op_name o) -> k = op_name o).
    { intros k HI E. apply NC; [apply in_or_app; left; exact HI | apply in_or_app; right; left; reflexivity | exact E]. }
    destruct (step_post name_hash P Hcap st l o st1 x R ND EA Inj S NB1) as [l1 [R1 [ND1 [EA1 [IN1 E1]]]]].
    destruct (spec_step_tracks l l1 m o x T E1) as [T1 RO].
    assert (NC1 : NoHashCollision name_hash (map aname l1 ++ names h)).
    { eapply NoHashCollision_incl; [|exact NC]. intros k HI. apply in_app_or in HI. destruct HI as [HI|HI].
      - apply IN1 in HI. destruct HI as [<-|HI]; apply in_or_app; [right; left; reflexivity | left; exact HI].
      - apply in_or_app. right. right. exact HI. }
    destruct (IH st1 l1 (spec_step m o x) st2 xs R1 ND1 EA1 T1 NC1 RN NB) as [l2 [R2 [ND2 [EA2 [T2 RO2]]]]].
    exists l2. cbn [run_spec results_ok]. tauto.
Qed.

(* ---- C02_refines_map ---- *)
Theorem refines_map : forall h st rs,
  NoHashCollision name_hash (names h) ->
  run init h = (st, rs) -> st <> Broken ->
  exists l, read_attrs st = Some l /\ NoDup (map aname l) /\
            (forall n, attr_get l n = sp_get (run_spec [] h rs) n) /\
            results_ok [] h rs.
Proof.
  intros h st rs NC H NB.
  destruct (run_refines h init [] [] st rs) as [l [R [ND [_ [T RO]]]]]; try assumption.
  - reflexivity.
  - constructor.
  - intros x [].
  - reflexivity.
  - exists l. split; [eapply rep_read; exact R | tauto].
Qed.

(* the specification map keeps unique keys, so "same look-up function" is "same set of bindings" *)
Lemma run_spec_keys : forall h rs m, NoDup (keys m) -> NoDup (keys (run_spec m h rs)).
Proof.
  induction h as [|o h IH]; intros rs m ND; cbn [run_spec]; [exact ND|].
  destruct rs as [|r rs]; [exact ND|]. apply IH.
  destruct o as [n [v|]|n]; destruct r; cbn [spec_step]; try exact ND.
  - apply sp_set_keys_nodup. exact ND.
  - apply sp_del_keys_nodup. exact ND.
Qed.

Theorem refines_map_set : forall h st rs,
  NoHashCollision name_hash (names h) ->
  run init h = (st, rs) -> st <> Broken ->
  exists l, read_attrs st = Some l /\
            forall n v, In (mkAttr n v) l <-> In (n, v) (bindings (run_spec [] h rs)).
Proof.
  intros h st rs NC H NB. destruct (refines_map h st rs NC H NB) as [l [RD [ND [T _]]]].
  exists l. split; [exact RD|]. intros n v. unfold bindings.
  rewrite <- (sp_get_in (run_spec [] h rs) n v) by (apply run_spec_keys; constructor). rewrite <- T. split.
  - apply attr_get_in. exact ND.
  - apply attr_get_some_in.
Qed.

(* ---- C02_names_unique ---- *)
Theorem names_unique : forall h st rs l,
  NoHashCollision name_hash (names h) ->
  run init h = (st, rs) -> read_attrs st = Some l -> NoDup (map aname l).
Proof.
  intros h st rs l NC H RD.
  assert (NB : st <> Broken) by (intro E; subst st; discriminate).
  destruct (refines_map h st rs NC H NB) as [l' [RD' [ND _]]]. congruence.
Qed.

(* ---- a call that does not succeed changes nothing (C16 for attributes) ---- *)
Theorem err_unchanged : forall st o st' r, step st o = (st', r) -> r <> ROk -> st' = st.
Proof. apply step_err_unchanged. Qed.

(* ---- C02_transition_preserves ---- *)
Theorem transition_preserves : forall attrs a ix hp,
  transition name_hash P attrs a = (Dense ix hp, ROk) ->
  exists l, read_attrs (Dense ix hp) = Some l /\ Permutation l (attrs ++ [a]).
Proof.
  intros attrs a ix hp H. unfold transition in H.
  destruct (daw_add_all name_hash P [] [] heap_empty (attrs ++ [a])) as [ix0 hp0| | |] eqn:D; try discriminate.
  - destruct (p_limit P <? p_base P + (4 + p_info P)); inversion H; subst.
    destruct (daw_ok name_hash P Hcap _ _ _ _ [] _ _ (dense_rep_empty name_hash P Hcap)
                (fun m => conj (fun x => x) (fun x => x)) D) as [l [R [PM _]]].
    exists l. split; [|exact PM]. destruct R as [F _]. eapply read_dense_rep. exact F.
  - destruct (p_ovf_err P); [discriminate|]. destruct (p_limit P <? p_base P + (4 + p_info P)); discriminate.
Qed.

End Main.

(* ---- C02_storage_irrelevant: the thresholds (hence which storage form is in use when) do not matter ---- *)
Theorem storage_irrelevant : forall name_hash P1 P2 h st1 st2 rs l1 l2,
  p_hcap P1 <= 65536 -> p_hcap P2 <= 65536 ->
  NoHashCollision name_hash (names h) ->
  run name_hash P1 init h = (st1, rs) -> run name_hash P2 init h = (st2, rs) ->
  read_attrs st1 = Some l1 -> read_attrs st2 = Some l2 ->
  forall n, attr_get l1 n = attr_get l2 n.
Proof.
  intros f P1 P2 h st1 st2 rs l1 l2 C1 C2 NC H1 H2 R1 R2 n.
  assert (NB1 : st1 <> Broken) by (intro E; subst st1; discriminate).
  assert (NB2 : st2 <> Broken) by (intro E; subst st2; discriminate).
  destruct (refines_map f P1 C1 h st1 rs NC H1 NB1) as [k1 [E1 [_ [T1 _]]]].
  destruct (refines_map f P2 C2 h st2 rs NC H2 NB2) as [k2 [E2 [_ [T2 _]]]].
  assert (k1 = l1) by congruence. assert (k2 = l2) by congruence. subst. rewrite T1, T2. reflexivity.
Qed.
