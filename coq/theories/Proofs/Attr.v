(* History-level theorems of property C02 over Model/Attr.v. *)
From HV Require Import Base.Prelude Model.Attr Proofs.AttrBase Proofs.AttrDense Proofs.AttrStep.
From Coq Require Import Permutation.

(* what the specification demands of the answer [r] of one call when the map is [m]:
   DeleteAttribute succeeds exactly on present names; a value the API cannot encode is refused;
   WriteAttribute may be refused (capacity limits: Proofs/AttrRefusal.v) *)
Definition res_ok (m : smap) (o : op) (r : res) : Prop :=
  match o with
  | ODelete n => r = snd (spec_delete m n)
  | OWrite n None => r = RErr
  | OWrite n (Some v) => r = ROk \/ r = RErr
  end.

Fixpoint results_ok (m : smap) (h : list op) (rs : list res) : Prop :=
  match h, rs with
  | [], [] => True
  | o :: h', r :: rs' => res_ok m o r /\ results_ok (spec_step m o r) h' rs'
  | _, _ => False
  end.

Lemma NoHashCollision_incl : forall f l1 l2, incl l1 l2 -> NoHashCollision f l2 -> NoHashCollision f l1.
Proof. intros f l1 l2 I H a b Ha Hb E. apply H; [apply I; exact Ha | apply I; exact Hb | exact E]. Qed.

Section Main.
Variable name_hash : bytes -> N.
Variable P : params.
Hypothesis Hcap : p_hcap P <= 65536.

Notation Rep := (Rep name_hash P).
Notation run := (run name_hash P).
Notation step := (step name_hash P).

Lemma run_broken_fst : forall h, fst (run Broken h) = Broken.
Proof.
  induction h as [|o h IH]; cbn [Attr.run]; [reflexivity|].
  assert (E : step Broken o = (Broken, RErr)) by (destruct o as [n [v|]|n]; reflexivity).
  rewrite E. destruct (run Broken h) as [st2 xs]. cbn [fst] in *. exact IH.
Qed.

Lemma run_broken : forall h st rs, run Broken h = (st, rs) -> st = Broken.
Proof. intros h st rs H. pose proof (run_broken_fst h) as E. rewrite H in E. exact E. Qed.

Lemma spec_step_tracks : forall l l' m o r,
  (forall n, attr_get l n = sp_get m n) -> eff l l' o r ->
  (forall n, attr_get l' n = sp_get (spec_step m o r) n) /\ res_ok m o r.
Proof.
  intros l l' m o r T E. destruct r; cbn [eff] in E.
  - destruct o as [n [v|]|n]; cbn [spec_step res_ok].
    + split; [|left; reflexivity]. intro k. rewrite E, sp_get_set, T. reflexivity.
    + destruct E.
    + destruct E as [NN E]. split.
      * intro k. rewrite E, sp_get_del, T. reflexivity.
      * unfold spec_delete. rewrite <- T. destruct (attr_get l n); [reflexivity | congruence].
  - destruct E as [-> E]. split.
    + intro k. destruct o as [n [v|]|n]; cbn [spec_step]; apply T.
    + destruct o as [n [v|]|n]; cbn [res_ok]; [right; reflexivity | reflexivity|].
      unfold spec_delete. rewrite <- T, E. reflexivity.
Qed.

Lemma run_refines : forall h st l m st' rs,
  Rep st l -> NoDup (map aname l) -> EncAll l -> (forall n, attr_get l n = sp_get m n) ->
  NoHashCollision name_hash (map aname l ++ names h) ->
  run st h = (st', rs) -> st' <> Broken ->
  exists l', Rep st' l' /\ NoDup (map aname l') /\ EncAll l' /\
             (forall n, attr_get l' n = sp_get (run_spec m h rs) n) /\ results_ok m h rs.
Proof.
  induction h as [|o h IH]; intros st l m st' rs R ND EA T NC H NB; cbn [Attr.run] in H.
  - inversion H; subst. exists l. cbn [run_spec results_ok]. tauto.
  - destruct (step st o) as [st1 x] eqn:S. destruct (run st1 h) as [st2 xs] eqn:RN. inversion H; subst st' rs.
    assert (NB1 : st1 <> Broken) by (intro E; subst st1; apply run_broken in RN; contradiction).
    assert (Inj : forall k, In k (map aname l) -> name_hash k = name_hash (op_name o) -> k = op_name o).
    { intros k HI E. apply NC; [apply in_or_app; left; exact HI | apply in_or_app; right; left; reflexivity | exact E]. }
    destruct (step_post name_hash P Hcap st l o st1 x R ND EA Inj S NB1) as [l1 [R1 [ND1 [EA1 [IN1 E1]]]]].
    destruct (spec_step_tracks l l1 m o x T E1) as [T1 RO].
    assert (NC1 : NoHashCollision name_hash (map aname l1 ++ names h)).
    { eapply NoHashCollision_incl; [|exact NC]. intros k HI. apply in_app_or in HI. destruct HI as [HI|HI].
      - apply IN1 in HI. destruct HI as [<-|HI]; apply in_or_app; [right; left; reflexivity | left; exact HI].
      - apply in_or_app. right. right. exact HI. }
    destruct (IH st1 l1 (spec_step m o x) st2 xs R1 ND1 EA1 T1 NC1 RN NB) as [l2 [R2 [ND2 [EA2 [T2 RO2]]]]].
    exists l2. cbn [run_spec results_ok]. tauto.
Qed.

(* ---- C02_refines_map ---- *)
Theorem refines_map : forall h st rs,
  NoHashCollision name_hash (names h) ->
  run init h = (st, rs) -> st <> Broken ->
  exists l, read_attrs st = Some l /\ NoDup (map aname l) /\
            (forall n, attr_get l n = sp_get (run_spec [] h rs) n) /\
            results_ok [] h rs.
Proof.
  intros h st rs NC H NB.
  destruct (run_refines h init [] [] st rs) as [l [R [ND [_ [T RO]]]]]; try assumption.
  - reflexivity.
  - constructor.
  - intros x [].
  - reflexivity.
  - exists l. split; [eapply rep_read; exact R | tauto].
Qed.

(* the specification map keeps unique keys, so "same look-up function" is "same set of bindings" *)
Lemma run_spec_keys : forall h rs m, NoDup (keys m) -> NoDup (keys (run_spec m h rs)).
Proof.
  induction h as [|o h IH]; intros rs m ND; cbn [run_spec]; [exact ND|].
  destruct rs as [|r rs]; [exact ND|]. apply IH.
  destruct o as [n [v|]|n]; destruct r; cbn [spec_step]; try exact ND.
  - apply sp_set_keys_nodup. exact ND.
  - apply sp_del_keys_nodup. exact ND.
Qed.

Theorem refines_map_set : forall h st rs,
  NoHashCollision name_hash (names h) ->
  run init h = (st, rs) -> st <> Broken ->
  exists l, read_attrs st = Some l /\
            forall n v, In (mkAttr n v) l <-> In (n, v) (bindings (run_spec [] h rs)).
Proof.
  intros h st rs NC H NB. destruct (refines_map h st rs NC H NB) as [l [RD [ND [T _]]]].
  exists l. split; [exact RD|]. intros n v. unfold bindings.
  rewrite <- (sp_get_in (run_spec [] h rs) n v) by (apply run_spec_keys; constructor). rewrite <- T. split.
  - apply attr_get_in. exact ND.
  - apply attr_get_some_in.
Qed.

(* ---- C02_names_unique ---- *)
Theorem names_unique : forall h st rs l,
  NoHashCollision name_hash (names h) ->
  run init h = (st, rs) -> read_attrs st = Some l -> NoDup (map aname l).
Proof.
  intros h st rs l NC H RD.
  assert (NB : st <> Broken) by (intro E; subst st; discriminate).
  destruct (refines_map h st rs NC H NB) as [l' [RD' [ND _]]]. congruence.
Qed.

(* ---- a call that does not succeed changes nothing (C16 for attributes) ---- *)
Theorem err_unchanged : forall st o st' r, step st o = (st', r) -> r <> ROk -> st' = st.
Proof. apply step_err_unchanged. Qed.

(* ---- C02_transition_preserves ---- *)
Theorem transition_preserves : forall attrs a ix hp,
  transition name_hash P attrs a = (Dense ix hp, ROk) ->
  exists l, read_attrs (Dense ix hp) = Some l /\ Permutation l (attrs ++ [a]).
Proof.
  intros attrs a ix hp H. unfold transition in H.
  destruct (daw_add_all name_hash P [] [] heap_empty (attrs ++ [a])) as [ix0 hp0| |] eqn:D; try discriminate.
  - destruct (p_limit P <? p_base P + (4 + p_info P)); inversion H; subst.
    destruct (daw_ok name_hash P Hcap _ _ _ _ [] _ _ (dense_rep_empty name_hash P Hcap)
                (fun m => conj (fun x => x) (fun x => x)) D) as [l [R [PM _]]].
    exists l. split; [|exact PM]. destruct R as [F _]. eapply read_dense_rep. exact F.
  - destruct (p_ovf_err P); [discriminate|]. destruct (p_limit P <? p_base P + (4 + p_info P)); discriminate.
Qed.

End Main.

(* ---- C02_storage_irrelevant: the thresholds (hence which storage form is in use when) do not matter ---- *)
Theorem storage_irrelevant : forall name_hash P1 P2 h st1 st2 rs l1 l2,
  p_hcap P1 <= 65536 -> p_hcap P2 <= 65536 ->
  NoHashCollision name_hash (names h) ->
  run name_hash P1 init h = (st1, rs) -> run name_hash P2 init h = (st2, rs) ->
  read_attrs st1 = Some l1 -> read_attrs st2 = Some l2 ->
  forall n, attr_get l1 n = attr_get l2 n.
Proof.
  intros f P1 P2 h st1 st2 rs l1 l2 C1 C2 NC H1 H2 R1 R2 n.
  assert (NB1 : st1 <> Broken) by (intro E; subst st1; discriminate).
  assert (NB2 : st2 <> Broken) by (intro E; subst st2; discriminate).
  destruct (refines_map f P1 C1 h st1 rs NC H1 NB1) as [k1 [E1 [_ [T1 _]]]].
  destruct (refines_map f P2 C2 h st2 rs NC H2 NB2) as [k2 [E2 [_ [T2 _]]]].
  assert (k1 = l1) by congruence. assert (k2 = l2) by congruence. subst. rewrite T1, T2. reflexivity.
Qed.

(* ---- when the heap overflow is refused (p_ovf_err = true: the tree with the proposed repair) the
        storage can never be damaged, so the refinement needs no side condition on the volume ---- *)
Section Repaired.
Variable name_hash : bytes -> N.
Variable P : params.
Hypothesis Hovf : p_ovf_err P = true.

Lemma step_not_broken : forall st o st' r, st <> Broken -> step name_hash P st o = (st', r) -> st' <> Broken.
Proof.
  intros st o st' r NB H. destruct o as [n [v|]|n]; cbn [step write_attr delete_attr] in H.
  - destruct st as [attrs|ix hp|]; [| |contradiction].
    + assert (T : forall st0 r0, transition name_hash P attrs (mkAttr n v) = (st0, r0) -> st0 <> Broken).
      { intros st0 r0 HT. unfold transition in HT. rewrite Hovf in HT.
        destruct (daw_add_all name_hash P [] [] heap_empty (attrs ++ [mkAttr n v])); try (inversion HT; subst; discriminate).
        destruct (p_limit P <? p_base P + (4 + p_info P)); inversion HT; subst; discriminate. }
      destruct (N.of_nat (List.length attrs) <? p_maxc P); [|eapply T; eassumption].
      unfold write_compact in H. destruct (encode_attr (mkAttr n v)); try (inversion H; subst; discriminate).
      destruct (replace_name (aname (mkAttr n v)) (mkAttr n v) attrs).
      * destruct (p_limit P <? hdr_size P l); inversion H; subst; discriminate.
      * destruct (p_limit P <? hdr_size P attrs + (4 + size)); [eapply T; eassumption | inversion H; subst; discriminate].
    + unfold write_dense in H. rewrite Hovf in H. destruct (encode_attr (mkAttr n v)); try (inversion H; subst; discriminate).
      destruct (idx_search (name_hash (aname (mkAttr n v))) ix).
      * destruct (heap_get hp h); [|inversion H; subst; discriminate].
        destruct (size =? snd h).
        -- destruct (heap_overwrite hp h (mkAttr n v)); inversion H; subst; discriminate.
        -- destruct (heap_delete hp h); [|inversion H; subst; discriminate].
           destruct (heap_insert P h0 (mkAttr n v)); try (inversion H; subst; discriminate).
           destruct (idx_update (name_hash (aname (mkAttr n v))) id ix); inversion H; subst; discriminate.
      * destruct (heap_insert P hp (mkAttr n v)); try (inversion H; subst; discriminate).
        destruct (idx_insert P (name_hash (aname (mkAttr n v)), id) ix); inversion H; subst; discriminate.
  - inversion H; subst; exact NB.
  - destruct st as [attrs|ix hp|]; [| |contradiction]; cbn [delete_attr] in H.
    + destruct (remove_name n attrs); inversion H; subst; discriminate.
    + destruct n as [|b t]; [inversion H; subst; discriminate|].
      destruct (idx_search (name_hash (b :: t)) ix) as [h|]; [|inversion H; subst; discriminate].
      destruct (idx_delete (name_hash (b :: t)) ix); [|inversion H; subst; discriminate].
      destruct (heap_delete hp h); inversion H; subst; discriminate.
Qed.

Lemma run_not_broken : forall h st st' rs, st <> Broken -> run name_hash P st h = (st', rs) -> st' <> Broken.
Proof.
  induction h as [|o h IH]; intros st st' rs NB H; cbn [run] in H.
  - inversion H; subst; exact NB.
  - destruct (step name_hash P st o) as [st1 x] eqn:S. destruct (run name_hash P st1 h) as [st2 xs] eqn:R.
    inversion H; subst. eapply IH; [|exact R]. eapply step_not_broken; [exact NB | exact S].
Qed.

Theorem refines_map_repaired : forall h st rs,
  p_hcap P <= 65536 ->
  NoHashCollision name_hash (names h) ->
  run name_hash P init h = (st, rs) ->
  exists l, read_attrs st = Some l /\ NoDup (map aname l) /\
            (forall n, attr_get l n = sp_get (run_spec [] h rs) n) /\
            results_ok [] h rs.
Proof.
  intros h st rs C NC H. apply (refines_map name_hash P C h st rs NC H).
  eapply run_not_broken; [|exact H]. discriminate.
Qed.

End Repaired.

(* ---- a closed-form side condition for the current tree: the heap cannot overflow while the total
        encoded size of all values ever written to the object stays within one direct block ---- *)
Section Volume.
Variable name_hash : bytes -> N.
Variable P : params.

Definition op_volume (o : op) : N :=
  match o with OWrite n (Some v) => msg_size (mkAttr n v) | _ => 0 end.
Fixpoint volume (h : list op) : N := match h with [] => 0 | o :: r => op_volume o + volume r end.

Fixpoint msgs_total (l : list attr) : N := match l with [] => 0 | a :: r => msg_size a + msgs_total r end.
Definition vol (st : state) : N :=
  match st with Compact attrs => msgs_total attrs | Dense _ hp => hfree hp | Broken => 0 end.

Lemma msgs_total_app : forall l1 l2, msgs_total (l1 ++ l2) = msgs_total l1 + msgs_total l2.
Proof. induction l1 as [|a l1 IH]; intro l2; cbn [app msgs_total]; [lia | rewrite IH; lia]. Qed.

Lemma replace_name_total : forall l n a l', replace_name n a l = Some l' -> msgs_total l' <= msgs_total l + msg_size a.
Proof.
  intros l n a l' H. destruct (replace_name_split _ _ _ _ H) as [l1 [x [l2 [-> [_ [-> _]]]]]].
  rewrite !msgs_total_app. cbn [msgs_total]. lia.
Qed.

Lemma remove_name_total : forall l n l', remove_name n l = Some l' -> msgs_total l' <= msgs_total l.
Proof.
  intros l n l' H. destruct (remove_name_split _ _ _ H) as [l1 [x [l2 [-> [_ [-> _]]]]]].
  rewrite !msgs_total_app. cbn [msgs_total]. lia.
Qed.

Lemma heap_insert_fits : forall hp a, hfree hp + msg_size a <= p_hcap P ->
  match heap_insert P hp a with HOk hp' _ => hfree hp' = hfree hp + msg_size a | HErr => True | HFull => False end.
Proof.
  intros hp a F. unfold heap_insert. destruct (msg_size a =? 0); [exact I|].
  destruct (p_maxobj P <? msg_size a); [exact I|].
  destruct (N.leb_spec (hfree hp + msg_size a) (p_hcap P)); [reflexivity | lia].
Qed.

Lemma daw_volume : forall todo seen ix hp, hfree hp + msgs_total todo <= p_hcap P ->
  match daw_add_all name_hash P seen ix hp todo with
  | TOk _ hp' => hfree hp' = hfree hp + msgs_total todo
  | TFull => False
  | _ => True
  end.
Proof.
  induction todo as [|a r IH]; intros seen ix hp F; cbn [daw_add_all msgs_total] in *; [lia|].
  destruct (aname a) as [|b t] eqn:EN; [exact I|]. rewrite <- EN in *.
  destruct (existsb (bytes_eqb (aname a)) seen); [exact I|].
  destruct (encode_attr a); try exact I.
  pose proof (heap_insert_fits hp a ltac:(lia)) as HF.
  destruct (heap_insert P hp a) as [hp1 id| |]; [|exact I|exact HF].
  destruct (idx_insert P (name_hash (aname a), id) ix) as [ix1|]; [|exact I].
  specialize (IH (aname a :: seen) ix1 hp1).
  assert (F1 : hfree hp1 + msgs_total r <= p_hcap P) by lia.
  specialize (IH F1). destruct (daw_add_all name_hash P (aname a :: seen) ix1 hp1 r); try exact IH. lia.
Qed.

Lemma heap_delete_hfree : forall hp id hp1, heap_delete hp id = Some hp1 -> hfree hp1 = hfree hp.
Proof. intros hp id hp1 H. unfold heap_delete in H. destruct (assoc_del (fst id) (hobjs hp)); inversion H; reflexivity. Qed.
Lemma heap_overwrite_hfree : forall hp id a hp1, heap_overwrite hp id a = Some hp1 -> hfree hp1 = hfree hp.
Proof. intros hp id a hp1 H. unfold heap_overwrite in H. destruct (assoc_set (fst id) a (hobjs hp)); inversion H; reflexivity. Qed.

Lemma transition_volume : forall attrs a st0 r0,
  msgs_total attrs + msg_size a <= p_hcap P -> transition name_hash P attrs a = (st0, r0) ->
  st0 <> Broken /\ vol st0 <= msgs_total attrs + msg_size a.
Proof.
  intros attrs a st0 r0 F H. unfold transition in H.
  pose proof (daw_volume (attrs ++ [a]) [] [] heap_empty) as DV.
  rewrite msgs_total_app in DV. cbn [msgs_total heap_empty hfree] in DV. specialize (DV ltac:(lia)).
  destruct (daw_add_all name_hash P [] [] heap_empty (attrs ++ [a])) as [ix hp| |].
  - destruct (p_limit P <? p_base P + (4 + p_info P)); inversion H; subst; cbn [vol]; split; try discriminate; lia.
  - inversion H; subst; cbn [vol]; split; [discriminate | lia].
  - destruct DV.
Qed.

Lemma step_volume : forall st o st' r, st <> Broken -> vol st + op_volume o <= p_hcap P ->
  step name_hash P st o = (st', r) -> st' <> Broken /\ vol st' <= vol st + op_volume o.
Proof.
  intros st o st' r NB F H. destruct o as [n [v|]|n]; cbn [step write_attr delete_attr op_volume] in *.
  - destruct st as [attrs|ix hp|]; [| |contradiction]; cbn [vol] in *.
    + destruct (N.of_nat (List.length attrs) <? p_maxc P); [|eapply transition_volume; eassumption].
      unfold write_compact in H. destruct (encode_attr (mkAttr n v)) as [sz|];
        try (inversion H; subst; cbn [vol]; split; [discriminate | lia]).
      destruct (replace_name (aname (mkAttr n v)) (mkAttr n v) attrs) as [attrs'|] eqn:RN.
      * apply replace_name_total in RN.
        destruct (p_limit P <? hdr_size P attrs'); inversion H; subst; cbn [vol]; split; try discriminate; lia.
      * destruct (p_limit P <? hdr_size P attrs + (4 + sz)); [eapply transition_volume; eassumption|].
        inversion H; subst; cbn [vol]. rewrite msgs_total_app. cbn [msgs_total]. split; [discriminate | lia].
    + unfold write_dense in H.
      destruct (encode_attr (mkAttr n v)) as [sz|]; try (inversion H; subst; cbn [vol]; split; [discriminate | lia]).
      destruct (idx_search (name_hash (aname (mkAttr n v))) ix) as [id|].
      * destruct (heap_get hp id); [|inversion H; subst; cbn [vol]; split; [discriminate | lia]].
        destruct (sz =? snd id).
        -- destruct (heap_overwrite hp id (mkAttr n v)) as [hp1|] eqn:OV; inversion H; subst; cbn [vol]; (split; [discriminate|]); [|lia].
           apply heap_overwrite_hfree in OV. lia.
        -- destruct (heap_delete hp id) as [hp1|] eqn:DL; [|inversion H; subst; cbn [vol]; split; [discriminate | lia]].
           apply heap_delete_hfree in DL.
           pose proof (heap_insert_fits hp1 (mkAttr n v) ltac:(lia)) as HF.
           destruct (heap_insert P hp1 (mkAttr n v)) as [hp2 id2| |]; [| |destruct HF].
           ++ destruct (idx_update (name_hash (aname (mkAttr n v))) id2 ix); inversion H; subst; cbn [vol]; split; try discriminate; lia.
           ++ inversion H; subst; cbn [vol]; split; [discriminate | lia].
      * pose proof (heap_insert_fits hp (mkAttr n v) ltac:(lia)) as HF.
        destruct (heap_insert P hp (mkAttr n v)) as [hp2 id2| |]; [| |destruct HF].
        -- destruct (idx_insert P (name_hash (aname (mkAttr n v)), id2) ix); inversion H; subst; cbn [vol]; split; try discriminate; lia.
        -- inversion H; subst; cbn [vol]; split; [discriminate | lia].
  - inversion H; subst. split; [exact NB | lia].
  - destruct st as [attrs|ix hp|]; [| |contradiction]; cbn [delete_attr vol] in *.
    + destruct (remove_name n attrs) as [attrs'|] eqn:RM; inversion H; subst; cbn [vol]; (split; [discriminate|]); [|lia].
      apply remove_name_total in RM. lia.
    + destruct n as [|b t]; [inversion H; subst; cbn [vol]; split; [discriminate | lia]|].
      destruct (idx_search (name_hash (b :: t)) ix) as [id|]; [|inversion H; subst; cbn [vol]; split; [discriminate | lia]].
      destruct (idx_delete (name_hash (b :: t)) ix); [|inversion H; subst; cbn [vol]; split; [discriminate | lia]].
      destruct (heap_delete hp id) as [hp1|] eqn:DL; inversion H; subst; cbn [vol]; (split; [discriminate|]); [|lia].
      apply heap_delete_hfree in DL. lia.
Qed.

Lemma run_volume : forall h st st' rs, st <> Broken -> vol st + volume h <= p_hcap P ->
  run name_hash P st h = (st', rs) -> st' <> Broken.
Proof.
  induction h as [|o h IH]; intros st st' rs NB F H; cbn [run volume] in *.
  - inversion H; subst; exact NB.
  - destruct (step name_hash P st o) as [st1 x] eqn:S. destruct (run name_hash P st1 h) as [st2 xs] eqn:R.
    inversion H; subst. destruct (step_volume st o st1 x NB ltac:(lia) S) as [NB1 V1].
    eapply IH; [exact NB1 | | exact R]. lia.
Qed.

(* C02_refines_map with the side condition in closed form *)
Theorem refines_map_volume : forall h st rs,
  p_hcap P <= 65536 ->
  NoHashCollision name_hash (names h) ->
  volume h <= p_hcap P ->
  run name_hash P init h = (st, rs) ->
  exists l, read_attrs st = Some l /\ NoDup (map aname l) /\
            (forall n, attr_get l n = sp_get (run_spec [] h rs) n) /\
            results_ok [] h rs.
Proof.
  intros h st rs C NC V H. apply (refines_map name_hash P C h st rs NC H).
  eapply run_volume; [| |exact H]; [discriminate | cbn [vol init msgs_total]; lia].
Qed.

End Volume.

(* ---- the statement for the parameter values of the current source tree: the only hypothesis left is that
        the names used do not collide under the hash ---- *)
Theorem refines_map_go : forall name_hash base h st rs,
  NoHashCollision name_hash (names h) ->
  run name_hash (go_params base) init h = (st, rs) ->
  exists l, read_attrs st = Some l /\ NoDup (map aname l) /\
            (forall n, attr_get l n = sp_get (run_spec [] h rs) n) /\
            results_ok [] h rs.
Proof.
  intros f base h st rs NC H. apply (refines_map_repaired f (go_params base) eq_refl h st rs); try assumption.
  cbn. lia.
Qed.
