(* C07 - LZF decompressor (internal/core/filterpipeline.go lzfDecompress, model Model/Filters.v lzf_dec):
   no declared output size is passed to it; the output grows only by what the input encodes.
   OUTPUT SIZE BOUND for ALL inputs made of bytes:   len(output) <= 88 * len(input).
     literal run       ctrl < 32      : ctrl + 2 input bytes give ctrl + 1 <= 32 output bytes
     short back ref.   2 input bytes  : ctrl/32 + 2 <= 9 output bytes
     long back ref.    3 input bytes  : b1 + 9 <= 264 output bytes  = 88 per input byte
   The constant is reached by every long back reference (examples and the family [lzf_blowup] at the end).
   Base.Outcome / Base.Bytes are NOT imported here (their [Ok]/[Err]/[Panic] would clash with Filters.outcome);
   the byte hypothesis is spelled [forallb (fun b => b <? 256) i = true], which is the unfolding of
   [bytes_ok i = true] (convertible), or [Forall (fun b => b < 256) i]. *)
From HV Require Import Base.Prelude Model.Filters Proofs.FiltersLzf.

Local Open Scope nat_scope.

Definition is_bytes (l : list N) : Prop := Forall (fun b => (b < 256)%N) l.

Lemma is_bytes_forallb (l : list N) : forallb (fun b => (b <? 256)%N) l = true <-> is_bytes l.
Proof.
  unfold is_bytes. rewrite forallb_forall, Forall_forall.
  split; intros H x Hx; specialize (H x Hx); lia.
Qed.

Lemma is_bytes_skipn (l : list N) n : is_bytes l -> is_bytes (skipn n l).
Proof.
  unfold is_bytes. rewrite !Forall_forall. intros H x Hx. apply H.
  rewrite <- (firstn_skipn n l). apply in_or_app. now right.
Qed.

(* the copy loop of a back reference appends exactly runLen bytes *)
Lemma copy_back_length : forall n s (out : bytes), length (copy_back n s out) = length out + n.
Proof.
  induction n as [|n IH]; intros s out; cbn [copy_back]; [lia|].
  rewrite IH, app_length. cbn [length]. lia.
Qed.

(* one step of the decoder never adds more than 88 bytes per input byte consumed *)
Lemma lzf_dec_out_len : forall f (i o r : bytes),
  is_bytes i -> lzf_dec f i o = Ok r -> length r <= length o + 88 * length i.
Proof.
  induction f as [|f IH]; intros i o r Hb H.
  - destruct i as [|c t]; cbn [lzf_dec] in H; [|discriminate].
    injection H as <-. lia.
  - destruct i as [|c t]; cbn [lzf_dec] in H; [injection H as <-; lia|].
    inversion Hb as [|? ? Hc Ht]; subst. cbn [length].
    destruct (c <? 32)%N eqn:Ec.
    + (* literal run *)
      destruct (length t <? N.to_nat c + 1) eqn:El; [discriminate|].
      apply Nat.ltb_ge in El.
      apply IH in H; [|now apply is_bytes_skipn].
      rewrite app_length, firstn_length, skipn_length in H. lia.
    + destruct t as [|b1 t2]; [discriminate|].
      inversion Ht as [|? ? Hb1 Ht2]; subst. cbn [length].
      destruct (c / 32 =? 7)%N eqn:E7.
      * (* long back reference: 3 input bytes, at most 255 + 9 output bytes *)
        destruct t2 as [|lo t3]; [discriminate|].
        inversion Ht2 as [|? ? Hlo Ht3]; subst. cbn [length].
        destruct (length o <? _) eqn:Eo; [discriminate|].
        apply IH in H; [|exact Ht3].
        rewrite copy_back_length in H. lia.
      * (* short back reference: 2 input bytes, at most 9 output bytes *)
        destruct (length o <? _) eqn:Eo; [discriminate|].
        apply IH in H; [|exact Ht2].
        rewrite copy_back_length in H. lia.
Qed.

Theorem lzf_decompress_out_len_Forall : forall (i r : bytes),
  Forall (fun b => (b < 256)%N) i -> lzf_decompress i = Ok r -> length r <= 88 * length i.
Proof.
  intros i r Hb H. unfold lzf_decompress in H. destruct i as [|c t].
  - injection H as <-. cbn [length]. lia.
  - apply lzf_dec_out_len in H; [|exact Hb]. cbn [length] in *. lia.
Qed.

(* the hypothesis is [bytes_ok i = true] of Base/Bytes.v, unfolded *)
Theorem lzf_decompress_out_len : forall (i r : bytes),
  forallb (fun b => (b <? 256)%N) i = true -> lzf_decompress i = Ok r -> length r <= 88 * length i.
Proof. intros i r Hb. apply lzf_decompress_out_len_Forall. now apply is_bytes_forallb. Qed.

(* the same in N, the unit of the allocation bounds of C07 *)
Corollary lzf_decompress_out_len_N : forall (i r : bytes),
  forallb (fun b => (b <? 256)%N) i = true -> lzf_decompress i = Ok r ->
  (N.of_nat (length r) <= 88 * N.of_nat (length i))%N.
Proof. intros i r Hb H. pose proof (lzf_decompress_out_len i r Hb H). lia. Qed.

(* no run-time failure and no fuel exhaustion on any input (re-export of FiltersLzf.lzf_decompress_total) *)
Theorem lzf_decompress_no_panic_no_fuel : forall i : bytes,
  lzf_decompress i <> OutOfFuel /\ lzf_decompress i <> Panic.
Proof. exact lzf_decompress_total. Qed.

(* ---------------------------------------------------------------- the constant 88 is reached *)

(* one literal byte, then one long back reference of maximal length: 3 input bytes give 264 output bytes *)
Example lzf_blowup_1 :
  match lzf_decompress [0; 65; 224; 255; 0]%N with Ok r => length r | _ => 0 end = 1 + 264.
Proof. vm_compute. reflexivity. Qed.

Example lzf_blowup_10 :
  match lzf_decompress ([0; 65] ++ concat (repeat [224; 255; 0] 10))%N with Ok r => length r | _ => 0 end = 1 + 264 * 10.
Proof. vm_compute. reflexivity. Qed.

(* the family: 2 + 3k input bytes decode to 1 + 264k output bytes, for every k *)
Lemma lzf_dec_backrefs : forall k f (o : bytes),
  1 <= length o -> 3 * k <= f ->
  exists r, lzf_dec f (concat (repeat [224; 255; 0]%N k)) o = Ok r /\ length r = length o + 264 * k.
Proof.
  induction k as [|k IH]; intros f o Ho Hf.
  - cbn [repeat concat]. exists o. split; [destruct f; reflexivity|lia].
  - destruct f as [|f]; [lia|].
    cbn [repeat concat app lzf_dec].
    change (224 <? 32)%N with false. change (224 / 32 =? 7)%N with true. cbv iota.
    change (N.to_nat (224 mod 32 * 256 + 0) + 1) with 1.
    replace (length o <? 1) with false by (symmetry; apply Nat.ltb_ge; lia).
    destruct (IH f (copy_back (N.to_nat 255 + 9) (length o - 1) o)) as (r & Hr & Hl).
    + rewrite copy_back_length. lia.
    + lia.
    + exists r. split; [exact Hr|]. rewrite Hl, copy_back_length.
      change (N.to_nat 255 + 9) with 264. lia.
Qed.

Theorem lzf_blowup : forall k,
  exists r, lzf_decompress ([0; 65] ++ concat (repeat [224; 255; 0] k))%N = Ok r /\
            length r = 1 + 264 * k /\
            length ([0; 65] ++ concat (repeat [224; 255; 0] k))%N = 2 + 3 * k.
Proof.
  intros k. unfold lzf_decompress. cbn [app length lzf_dec].
  change (0 <? 32)%N with true. cbv iota.
  assert (Hlen : length (concat (repeat [224; 255; 0]%N k)) = 3 * k).
  { induction k as [|k IH]; cbn [repeat concat]; [reflexivity|]. rewrite app_length, IH. cbn [length]. lia. }
  change (N.to_nat 0 + 1) with 1.
  replace (length (65%N :: concat (repeat [224; 255; 0]%N k)) <? 1) with false
    by (symmetry; apply Nat.ltb_ge; cbn [length]; lia).
  cbn [skipn firstn app].
  destruct (lzf_dec_backrefs k (S (length (concat (repeat [224; 255; 0]%N k)))) [65%N]) as (r & Hr & Hl).
  - cbn [length]. lia.
  - lia.
  - exists r. split; [exact Hr|]. split; [rewrite Hl; cbn [length]; lia|lia].
Qed.
