(* C17: the remaining read entry points (Model/IOProgSlice.v) lie in the strict fragment, hence truncation / failing
   I/O can only turn their answer into an error (Proofs/IOProg.v strict_refines). *)
From HV Require Import Base.Prelude Base.Outcome Base.Bytes Model.IOProg Proofs.IOProg Model.IOProgReader Proofs.IOProgReader.
From HV Require Import Model.IOProgSlice.
From HV Require Import Model.CodecSuper Model.CodecOhdr Model.CodecMsg Model.CodecType Model.CodecAttr Model.CodecFilter.

Lemma p_elems_strict offs es : strict (p_elems offs es).
Proof. induction offs; cbn [p_elems]; strict_auto. Qed.
#[export] Hint Resolve p_elems_strict : core.

Section WithSuperblock.
Variable sb : superblock'.
Hypothesis Hl : valid_size (spp_lensize sb) = true.

Hint Resolve p_ohdr_strict p_bt1_node_strict p_collect_strict : core.

Lemma p_slice_contig_strict s dims es addr : strict (p_slice_contig s dims es addr).
Proof. unfold p_slice_contig. strict_auto. Qed.
Hint Resolve p_slice_contig_strict : core.

Lemma p_slice_chunks_strict cd ndims ents coords : strict (p_slice_chunks cd ndims ents coords).
Proof. induction coords; cbn [p_slice_chunks]; strict_auto. Qed.
Hint Resolve p_slice_chunks_strict : core.

Lemma p_slice_chunked_strict fuel s dims ly : strict (p_slice_chunked sb fuel s dims ly).
Proof. unfold p_slice_chunked. strict_auto. Qed.
Hint Resolve p_slice_chunked_strict : core.

Lemma p_read_hyperslab_strict fuel s ms : strict (p_read_hyperslab sb fuel s ms).
Proof. unfold p_read_hyperslab. strict_auto. Qed.
Hint Resolve p_read_hyperslab_strict : core.

(* ReadSlice / ReadHyperslab: the attribute error kept in the header is not looked at *)
Lemma api_slice_with_strict fuel addr check : strict (api_slice_with sb fuel addr check).
Proof.
  unfold api_slice_with. apply strict_bind; [auto|]. intros h.
  apply st_swallow_ignore.
  - apply strict_bind; [apply (p_attrs_strict sb Hl)|intros; constructor].
  - reflexivity.
  - strict_auto.
Qed.

Theorem api_read_slice_strict fuel addr st cn : strict (api_read_slice sb fuel addr st cn).
Proof. apply api_slice_with_strict. Qed.
Theorem api_read_hyperslab_strict fuel addr s : strict (api_read_hyperslab sb fuel addr s).
Proof. apply api_slice_with_strict. Qed.

(* ChunkIterator() *)
Theorem api_chunk_iterator_strict fuel addr : strict (api_chunk_iterator sb fuel addr).
Proof.
  unfold api_chunk_iterator. apply strict_bind; [auto|]. intros h.
  apply st_swallow_ignore.
  - apply strict_bind; [apply (p_attrs_strict sb Hl)|intros; constructor].
  - reflexivity.
  - strict_auto.
Qed.

(* Chunk() of one chunk, and the loop over all of them *)
Theorem api_chunk_strict fuel addr cd dims coord : strict (api_chunk sb fuel addr cd dims coord).
Proof. apply api_read_slice_strict. Qed.

Lemma p_chunk_all_strict fuel addr cd dims coords : strict (p_chunk_all sb fuel addr cd dims coords).
Proof.
  induction coords; cbn [p_chunk_all]; [constructor|].
  apply strict_bind; [apply api_chunk_strict|]. intros x.
  apply strict_bind; [assumption|]. intros; constructor.
Qed.

Theorem api_chunk_iterate_strict fuel addr : strict (api_chunk_iterate sb fuel addr).
Proof.
  unfold api_chunk_iterate. apply strict_bind; [apply api_chunk_iterator_strict|]. intros it. apply p_chunk_all_strict.
Qed.

(* values behind global heap references *)
Lemma p_steps_strict fuel steps : strict (p_steps sb fuel steps).
Proof.
  induction steps as [|[ref| |] rest IH]; cbn [p_steps]; try constructor.
  apply strict_bind; [apply api_vlen_string_strict|]. intros s.
  apply strict_bind; [assumption|]. intros; constructor.
Qed.

Lemma p_dataset_raw_gated_strict fuel ms gate : strict (p_dataset_raw_gated sb fuel ms gate).
Proof. unfold p_dataset_raw_gated. strict_auto. apply p_dataset_raw_strict. Qed.

Theorem api_read_strings_strict fuel addr : strict (api_read_strings sb fuel addr).
Proof.
  unfold api_read_strings. apply strict_bind; [auto|]. intros h.
  apply st_swallow_ignore.
  - apply strict_bind; [apply (p_attrs_strict sb Hl)|intros; constructor].
  - reflexivity.
  - apply p_dataset_raw_gated_strict.
Qed.

Theorem api_read_compound_strict fuel addr ctype walk : strict (api_read_compound sb fuel addr ctype walk).
Proof.
  unfold api_read_compound. apply strict_bind; [auto|]. intros h.
  apply st_swallow_ignore.
  - apply strict_bind; [apply (p_attrs_strict sb Hl)|intros; constructor].
  - reflexivity.
  - apply strict_bind; [apply p_dataset_raw_gated_strict|]. intros raw.
    apply strict_bind; [apply p_steps_strict|]. intros; constructor.
Qed.

Theorem api_read_attribute_strict fuel addr walk : strict (api_read_attribute sb fuel addr walk).
Proof.
  unfold api_read_attribute. apply strict_bind; [apply (api_attributes_strict sb Hl)|]. intros a.
  apply strict_bind; [apply p_steps_strict|]. intros; constructor.
Qed.

End WithSuperblock.

(* ------------------------------------------------------------------ in the words of the property *)

(* one statement per entry point: on the file cut to its first n bytes, under any fault pattern, the call returns
   the intact answer or an error, and does not panic (unless the intact call does) *)
Definition damage_ok {A} (p : prog A) : Prop :=
  forall (f : bytes) (n : nat) (fl : oracle) (c : nat),
    run0 f p <> Panic ->
    (fst (run (firstn n f) fl c p) = run0 f p \/ fst (run (firstn n f) fl c p) = Err) /\
    fst (run (firstn n f) fl c p) <> Panic.

Lemma strict_damage_ok {A} (p : prog A) : strict p -> damage_ok p.
Proof.
  intros H f n fl c Hp. split.
  - destruct (strict_refines _ p H f n fl c) as [E|E]; [contradiction|exact E].
  - apply no_panic; assumption.
Qed.

Lemma read_slice_damage sb : valid_size (spp_lensize sb) = true -> forall fuel addr st cn,
  damage_ok (api_read_slice sb fuel addr st cn).
Proof. intros H fuel addr st cn. apply strict_damage_ok, api_read_slice_strict, H. Qed.
Lemma read_hyperslab_damage sb : valid_size (spp_lensize sb) = true -> forall fuel addr s,
  damage_ok (api_read_hyperslab sb fuel addr s).
Proof. intros H fuel addr s. apply strict_damage_ok, api_read_hyperslab_strict, H. Qed.
Lemma chunk_iterator_damage sb : valid_size (spp_lensize sb) = true -> forall fuel addr,
  damage_ok (api_chunk_iterator sb fuel addr).
Proof. intros H fuel addr. apply strict_damage_ok, api_chunk_iterator_strict, H. Qed.
Lemma chunk_damage sb : valid_size (spp_lensize sb) = true -> forall fuel addr cd dims coord,
  damage_ok (api_chunk sb fuel addr cd dims coord).
Proof. intros H fuel addr cd dims coord. apply strict_damage_ok, api_chunk_strict, H. Qed.
Lemma chunk_iterate_damage sb : valid_size (spp_lensize sb) = true -> forall fuel addr,
  damage_ok (api_chunk_iterate sb fuel addr).
Proof. intros H fuel addr. apply strict_damage_ok, api_chunk_iterate_strict, H. Qed.
Lemma read_compound_damage sb : valid_size (spp_lensize sb) = true -> forall fuel addr ctype walk,
  damage_ok (api_read_compound sb fuel addr ctype walk).
Proof. intros H fuel addr ctype walk. apply strict_damage_ok, api_read_compound_strict, H. Qed.
Lemma read_strings_damage sb : valid_size (spp_lensize sb) = true -> forall fuel addr,
  damage_ok (api_read_strings sb fuel addr).
Proof. intros H fuel addr. apply strict_damage_ok, api_read_strings_strict, H. Qed.
Lemma read_attribute_damage sb : valid_size (spp_lensize sb) = true -> forall fuel addr walk,
  damage_ok (api_read_attribute sb fuel addr walk).
Proof. intros H fuel addr walk. apply strict_damage_ok, api_read_attribute_strict, H. Qed.
(* Read / ReadStrings (the I/O of api_read_raw) and Attributes, in the same form *)
Lemma read_raw_damage sb : valid_size (spp_lensize sb) = true -> forall fuel addr, damage_ok (api_read_raw sb fuel addr).
Proof. intros H fuel addr. apply strict_damage_ok, api_read_raw_strict, H. Qed.
Lemma attributes_damage sb : valid_size (spp_lensize sb) = true -> forall fuel addr, damage_ok (api_attributes sb fuel addr).
Proof. intros H fuel addr. apply strict_damage_ok, api_attributes_strict, H. Qed.

(* exactly the k-th I/O call of the entry point fails / is short, on the whole file *)
Lemma damage_ok_fault {A} (p : prog A) : damage_ok p -> forall f k ft, run0 f p <> Panic ->
  fst (run f (fault_at k ft) 0 p) = run0 f p \/ fst (run f (fault_at k ft) 0 p) = Err.
Proof.
  intros H f k ft Hp. destruct (H f (length f) (fault_at k ft) 0%nat Hp) as [E _].
  rewrite firstn_all in E. exact E.
Qed.
Lemma damage_ok_trunc {A} (p : prog A) : damage_ok p -> forall f n, run0 f p <> Panic ->
  run0 (firstn n f) p = run0 f p \/ run0 (firstn n f) p = Err.
Proof. intros H f n Hp. exact (proj1 (H f n nofault 0%nat Hp)). Qed.
