(* C06, reader against specification: the datatype message (0x0003), classes 0 (fixed point), 1 (floating point) and
   3 (string).  For every byte string (bytes < 256) whose class nibble is 0, 1 or 3 and which the strict specification
   decoder accepts, ParseDatatypeMessage (Model/CodecType.v dec_datatype, tied to the Go code by C11/C07) returns Ok
   with the same class, version and size, and a class bit field from which the specification's byte order, padding
   bits, sign, mantissa normalisation, sign location, string padding and character set are read off. *)
From HV Require Import Base.Prelude Base.Outcome Base.Bytes Spec.Parse Spec.FormatMsg Model.CodecMsg Model.CodecType
  Proofs.RobustNoPanicBase Proofs.RobustNoPanicOhdr Proofs.ReaderSpecBase.

Definition dtype_ver (t : dtype) : N :=
  match t with
  | DFixed v _ _ _ _ _ _ _ | DFloat v _ _ _ _ _ _ _ _ _ _ _ _ | DTime v _ _ _ | DString v _ _ _
  | DBitfield v _ _ _ _ _ _ | DOpaque v _ _ | DCompound v _ _ | DReference v _ _ | DEnum v _ _ _
  | DVlen v _ _ _ _ _ | DArray v _ _ _ => v
  end.

(* the reader hands back the 24-bit class bit field; the specification's fields are its bits *)
Definition dt_agree (t : dtype) (v : datatype) : Prop :=
  dt_class v = dtype_class t /\ dt_size v = dtype_size t /\ dt_version v = dtype_ver t /\
  let c := dt_cbf v in
  match t with
  | DFixed _ _ order lopad hipad signed _ _ =>
      bit c 0 = order /\ bit c 1 = lopad /\ bit c 2 = hipad /\ N.testbit c 3 = signed
  | DFloat _ _ order pads norm sign _ _ _ _ _ _ _ =>
      bit c 0 + 2 * bit c 6 = order /\ bits_of c 1 3 = pads /\ bits_of c 4 2 = norm /\ bits_of c 8 8 = sign
  | DString _ _ pad cset => bits_of c 0 4 = pad /\ bits_of c 4 4 = cset
  | _ => True
  end.

Definition dt_class_nibble (bs : bytes) : N := match bs with cv :: _ => N.land cv 15 | [] => 16 end.

(* ------------------------------------------------------------------ list / arithmetic facts *)
Lemma nth_error_skipn (l : list N) n x : nth_error l n = Some x -> skipn n l = x :: skipn (S n) l.
Proof.
  revert l. induction n as [|n IH]; intros [|y l] H; cbn [nth_error] in H; try discriminate.
  - injection H as <-. reflexivity.
  - cbn [skipn]. rewrite (IH l H). reflexivity.
Qed.

Lemma rd_le_bound (bs : list N) p k v : rd_le bs p k = Ok v -> p + k <= blen bs.
Proof.
  unfold rd_le, slice. destruct ((p <=? p + k) && (p + k <=? blen bs)) eqn:E; cbn [obind]; [|discriminate].
  intros _. apply andb_true_iff in E as [_ E]. now apply N.leb_le in E.
Qed.

(* one byte followed by a k-byte little-endian field is a (k+1)-byte little-endian field *)
Lemma rd_le_cons (bs : list N) p k x y :
  index bs p = Ok x -> rd_le bs (p + 1) k = Ok y -> rd_le bs p (k + 1) = Ok (x + 256 * y).
Proof.
  intros I R. pose proof (rd_le_bound _ _ _ _ R) as B.
  unfold index in I. bnorm. destruct (nth_error bs (N.to_nat p)) as [x'|] eqn:NE; cbv beta iota in I; [|discriminate]. injection I as ->.
  apply nth_error_skipn in NE.
  unfold rd_le, slice in *.
  replace ((p + 1 <=? p + 1 + k) && (p + 1 + k <=? blen bs)) with true in R
    by (symmetry; apply andb_true_iff; split; apply N.leb_le; blia).
  replace ((p <=? p + (k + 1)) && (p + (k + 1) <=? blen bs)) with true
    by (symmetry; apply andb_true_iff; split; apply N.leb_le; blia).
  cbn [obind] in *. injection R as <-. f_equal.
  replace (N.to_nat (p + (k + 1) - p)) with (S (N.to_nat k)) by blia.
  replace (N.to_nat (p + 1 + k - (p + 1))) with (N.to_nat k) by blia.
  replace (N.to_nat (p + 1)) with (S (N.to_nat p)) by blia.
  bnorm. rewrite NE. cbn [firstn unle]. reflexivity.
Qed.

Lemma index_byte (bs : list N) p x : bytes_ok bs = true -> index bs p = Ok x -> x < 256.
Proof.
  unfold index, bytes_ok. intros Hb H. bnorm. destruct (nth_error bs (N.to_nat p)) as [y|] eqn:NE; cbv beta iota in H; [|discriminate].
  injection H as <-. apply nth_error_In in NE. rewrite forallb_forall in Hb. apply N.ltb_lt. now apply Hb.
Qed.

Lemma rd_le_lt (bs : list N) p k v : bytes_ok bs = true -> rd_le bs p k = Ok v -> v < 256 ^ k.
Proof.
  intros Hb H. unfold rd_le in H. destruct (slice bs p (p + k)) as [s| |] eqn:S; cbn [obind] in H; try discriminate.
  injection H as <-. pose proof (slice_bytes_ok _ _ _ _ Hb S) as Hs. pose proof (slice_len _ _ _ _ S) as L.
  pose proof (unle_bound s Hs) as U. rewrite L in U. replace (p + k - p) with k in U by blia. exact U.
Qed.

Lemma head_class cv b : N.land (cv + 256 * b) 15 = N.land cv 15.
Proof. change 15 with (N.ones 4). rewrite !N.land_ones. change (2 ^ 4) with 16. blia. Qed.
Lemma head_version cv b : cv < 256 -> N.land (N.shiftr (cv + 256 * b) 4) 15 = N.shiftr cv 4.
Proof.
  intros H. change 15 with (N.ones 4). rewrite N.land_ones, !N.shiftr_div_pow2. change (2 ^ 4) with 16. blia.
Qed.
Lemma head_cbf cv b : cv < 256 -> b < 16777216 -> N.land (N.shiftr (cv + 256 * b) 8) 16777215 = b.
Proof.
  intros H1 H2. change 16777215 with (N.ones 24). rewrite N.land_ones, N.shiftr_div_pow2.
  change (2 ^ 8) with 256. change (2 ^ 24) with 16777216. blia.
Qed.

(* ------------------------------------------------------------------ the reader on a header of class 0, 1 or 3 *)
Lemma dec_dt_head (fuel : nat) (bs : list N) cv b size :
  bytes_ok bs = true ->
  index bs 0 = Ok cv -> rd_le bs 1 3 = Ok b -> rd_le bs 4 4 = Ok size ->
  N.land cv 15 = 0 \/ N.land cv 15 = 1 \/ N.land cv 15 = 3 ->
  exists p, dec_dt (S fuel) bs =
            Ok {| dt_class := N.land cv 15; dt_version := N.shiftr cv 4; dt_size := size; dt_cbf := b; dt_props := p |}.
Proof.
  intros Hb I0 R1 R4 Hc.
  pose proof (rd_le_bound _ _ _ _ R4) as B. change (4 + 4) with 8 in B.
  pose proof (index_byte _ _ _ Hb I0) as Hcv.
  pose proof (rd_le_lt _ _ _ _ Hb R1) as Hbits. change (256 ^ 3) with 16777216 in Hbits.
  pose proof (rd_le_cons bs 0 3 cv b I0 R1) as R0. change (3 + 1) with 4 in R0.
  cbn [dec_dt]. rewrite (ltb_false_of_le (blen bs) 8) by exact B.
  rewrite R0. cbn [obind]. rewrite R4. cbn [obind].
  rewrite head_class, head_version, head_cbf by assumption.
  unfold DT_FIXED, DT_FLOAT, DT_BITFIELD, DT_TIME, DT_COMPOUND.
  destruct Hc as [Hc | [Hc | Hc]]; rewrite Hc; cbn [N.eqb Pos.eqb obind].
  - destruct (blen bs <? 8 + 4) eqn:L.
    + destruct (slice_ok bs 8 (8 + (blen bs - 8))) as (p & -> & _); [blia|blia|]. cbn [obind]. eauto.
    + apply N.ltb_ge in L. destruct (slice_ok bs 8 (8 + 4)) as (p & -> & _); [blia|blia|]. cbn [obind]. eauto.
  - destruct (blen bs <? 8 + 12) eqn:L.
    + destruct (slice_ok bs 8 (8 + (blen bs - 8))) as (p & -> & _); [blia|blia|]. cbn [obind]. eauto.
    + apply N.ltb_ge in L. destruct (slice_ok bs 8 (8 + 12)) as (p & -> & _); [blia|blia|]. cbn [obind]. eauto.
  - destruct (blen bs <? 8 + (blen bs - 8)) eqn:L.
    + destruct (slice_ok bs 8 (8 + (blen bs - 8))) as (p & -> & _); [blia|blia|]. cbn [obind]. eauto.
    + destruct (slice_ok bs 8 (8 + (blen bs - 8))) as (p & -> & _); [blia|blia|]. cbn [obind]. eauto.
Qed.

(* brute-force walk through the remaining steps of a successful strict decoder branch *)
Ltac walk H :=
  repeat first
    [ discriminate H
    | progress cbn [obind dev strict] in H
    | match type of H with
      | obind ?o _ = _ => destruct o
      | context [match ?x with _ => _ end] => destruct x
      end ].

Lemma datatype_reader_spec (pad_ok : bool) (bs : bytes) (t : dtype) (tg : list tag) :
  bytes_ok bs = true ->
  dt_class_nibble bs = 0 \/ dt_class_nibble bs = 1 \/ dt_class_nibble bs = 3 ->
  spec_dec_datatype strict pad_ok bs = Ok (t, tg) ->
  exists v, dec_datatype bs = Ok v /\ dt_agree t v.
Proof.
  intros Hb Hc H. unfold spec_dec_datatype in H.
  destruct (p_dtype strict pad_ok (S (length bs)) bs) as [[[t' tg'] r]| |] eqn:E; cbn [obind] in H; try discriminate.
  assert (t' = t) by (destruct (p_end pad_ok r); cbn [obind] in H; try discriminate; now injection H).
  subst t'. clear H. rename E into H.
  cbn [p_dtype] in H. change (p_byte bs) with (p_byte (at_pos bs 0)) in H.
  assert (P0 : 0 <= blen bs) by blia.
  s_byte H cv B1 I0. change (0 + 1) with 1 in *.
  s_u H bits B2 R1. change (N.of_nat 3) with 3 in *. change (1 + 3) with 4 in *.
  s_u H size B3 R4. change (N.of_nat 4) with 4 in *.
  s_guard H GV. s_guard H GS.
  assert (CV : dt_class_nibble bs = N.land cv 15).
  { destruct bs as [|c0 bs']; [cbn in I0; discriminate|]. cbn in I0. injection I0 as ->. reflexivity. }
  rewrite CV in Hc.
  destruct (dec_dt_head (length bs) bs cv bits size Hb I0 R1 R4 Hc) as (p & D).
  unfold dec_datatype. rewrite D. eexists. split; [reflexivity|].
  unfold dt_agree. cbn [dt_class dt_size dt_version dt_cbf].
  destruct Hc as [Hc | [Hc | Hc]]; rewrite Hc in *; cbn [N.eqb Pos.eqb] in H.
  - (* fixed point *)
    walk H; injection H as <- <- <-; cbn [dtype_class dtype_size dtype_ver]; repeat split; auto.
  - (* floating point *)
    walk H; injection H as <- <- <-; cbn [dtype_class dtype_size dtype_ver]; repeat split; auto.
  - (* string *)
    walk H; injection H as <- <- <-; cbn [dtype_class dtype_size dtype_ver]; repeat split; auto.
Qed.

Example datatype_reader_spec_example :
  exists t, spec_dec_datatype strict false [16; 8; 0; 0; 4; 0; 0; 0; 0; 0; 32; 0] = Ok (t, []).
Proof. eexists. vm_compute. reflexivity. Qed.
