(* C07, symbol-table group walk (Model/RobustGroup.v): for ALL byte strings and ALL addresses
     - no decoder panics (checked slicing),
     - every allocation request is bounded: transient buffers by constants that follow from the 16-bit counts,
       the collected entries (repaired code, capped = true) by 4 * |file|,
     - the unrepaired code (capped = false) multiplies: n child pointers to one node of m entries give n * m entries. *)
From HV Require Import Base.Prelude Base.Outcome Base.Bytes Model.RobustAlloc Model.RobustGroup.
From HV Require Import Proofs.RobustNoPanicBase Proofs.RobustAlloc.

Lemma read_at_spec file off n :
  read_at file off n <> Panic /\
  forall s, read_at file off n = Ok s ->
            blen s = n /\ off + n <= blen file /\ (bytes_ok file = true -> bytes_ok s = true).
Proof.
  unfold read_at, MaxInt64. dif; [split; [discriminate|intros; discriminate]|].
  destruct (slice_in_range file off (off + n)) as (s & Hs & Hl); [lia|lia|]. rewrite Hs.
  split; [discriminate|]. intros s' [= <-]. split; [lia|]. split; [lia|]. intros Hb. eapply bytes_ok_slice; eauto.
Qed.

Lemma read_address_ok data size : exists v, read_address data size = Ok v.
Proof.
  unfold read_address. set (sz := if blen data <? size then blen data else size).
  assert (Hsz : sz <= blen data) by (unfold sz; dif; lia).
  dif. { destruct (index_ok data 0) as (b & ->); [lia|eauto]. }
  dif. { destruct (rd_le_ok data 0 sz) as (v & ->); [lia|eauto]. }
  destruct (slice_in_range data 0 sz) as (s & -> & _); [lia|lia|]. cbn [obind]. eauto.
Qed.

Lemma rd_le_lt (bs : bytes) off w :
  bytes_ok bs = true -> off + w <= blen bs -> exists v, rd_le bs off w = Ok v /\ v < 256 ^ w.
Proof.
  intros Hb H. unfold rd_le. destruct (slice_in_range bs off (off + w)) as (s & Hs & Hl); [lia|lia|].
  rewrite Hs. cbn [obind]. eexists; split; [reflexivity|].
  pose proof (unle_lt s (bytes_ok_slice _ _ _ _ Hb Hs)) as Hu. replace (blen s) with w in Hu by lia. exact Hu.
Qed.

Lemma get_buffer_le n b : n <= b -> 2048 <= b -> get_buffer n <= 2 * b.
Proof. unfold get_buffer. intros. dif; lia. Qed.

(* ---- child pointer loop ---- *)
Lemma gnode_children_spec n : forall data pos O, pos + 2 * O * N.of_nat n <= blen data ->
  exists kids, gnode_children n data pos O = Ok kids /\ (length kids <= n)%nat.
Proof.
  induction n as [|n IH]; intros data pos O H; cbn [gnode_children].
  - exists []. split; [reflexivity|cbn [length]; lia].
  - rewrite Nat2N.inj_succ in H.
    destruct (slice_from_ok data (pos + O)) as (d & -> & _); [nia|]. cbn [obind].
    destruct (read_address_ok d O) as (a & ->). cbn [obind].
    destruct (IH data (pos + O + O) O) as (rest & -> & Hl); [nia|]. cbn [obind].
    eexists; split; [reflexivity|]. dif; cbn [length]; lia.
Qed.

Ltac fin0 := cbn [fst snd]; split; [discriminate|split; [auto|intros; discriminate]].

Lemma gnode_read_spec file addr O :
  bytes_ok file = true -> O <= 8 ->
  fst (gnode_read file addr O) <> Panic /\
  alloc_bounded 0 2097136 file (snd (gnode_read file addr O)) /\
  forall kids, fst (gnode_read file addr O) = Ok kids -> N.of_nat (length kids) <= 65535.
Proof.
  intros Hb HO. unfold gnode_read.
  assert (B0 : alloc_bounded 0 2097136 file [get_buffer (8 + 2 * O)]).
  { apply ab_cons; [|apply ab_nil]. unfold get_buffer. dif; lia. }
  destruct (read_at_spec file addr (8 + 2 * O)) as [_ Hok].
  destruct (read_at file addr (8 + 2 * O)) as [h| |] eqn:Er; [|fin0|].
  2:{ exfalso. now apply (proj1 (read_at_spec file addr (8 + 2 * O))). }
  destruct (Hok h eq_refl) as (Hl & Hle & Hbh). specialize (Hbh Hb).
  dif; [fin0|].
  destruct (index_ok h 4) as (ty & ->); [lia|]. destruct (index_ok h 5) as (lv & ->); [lia|].
  destruct (rd_le_lt h 6 2 Hbh) as (used & -> & Hu); [lia|]. change (256 ^ 2) with 65536 in Hu.
  dif; [fin0|]. dif; [fin0|]. dif. { cbn [fst snd]. split; [discriminate|split; [auto|]]. intros k [= <-]. cbn [length]. lia. }
  assert (B1 : alloc_bounded 0 2097136 file ([get_buffer (8 + 2 * O)] ++ [get_buffer (used * 2 * O + O)])).
  { apply ab_app; auto. apply ab_cons; [|apply ab_nil]. unfold get_buffer. dif; nia. }
  destruct (read_at_spec file (addr + (8 + 2 * O)) (used * 2 * O + O)) as [Hnp2 Hok2].
  destruct (read_at file (addr + (8 + 2 * O)) (used * 2 * O + O)) as [data| |] eqn:Er2; [|fin0|congruence].
  destruct (Hok2 data eq_refl) as (Hl2 & _ & _).
  destruct (gnode_children_spec (N.to_nat used) data 0 O) as (kids & -> & Hk); [rewrite N2Nat.id; nia|].
  cbn [fst snd]. split; [discriminate|split].
  - apply ab_app; auto. apply ab_cons; [lia|apply ab_nil].
  - intros k [= <-]. lia.
Qed.

(* ---- symbol table node ---- *)
Lemma snod_entries_spec n : forall data offset O, O <= 8 ->
  snod_entries n data offset O <> Panic /\ forall es, snod_entries n data offset O = Ok es -> length es = n.
Proof.
  induction n as [|n IH]; intros data offset O HO; cbn [snod_entries].
  - split; [discriminate|]. intros es [= <-]. reflexivity.
  - dif; [split; [discriminate|intros; discriminate]|].
    destruct (slice_from_ok data offset) as (d0 & -> & _); [lia|]. cbn [obind].
    destruct (read_address_ok d0 O) as (name & ->). cbn [obind].
    destruct (slice_from_ok data (offset + O)) as (d1 & -> & _); [lia|]. cbn [obind].
    destruct (read_address_ok d1 O) as (obj & ->). cbn [obind].
    destruct (rd_le_ok data (offset + 2 * O) 4) as (ct & ->); [lia|]. cbn [obind].
    destruct (rd_le_ok data (offset + 2 * O + 4) 4) as (rsv & ->); [lia|]. cbn [obind].
    assert (Hc : exists bt hp, (if ct =? 1
                  then d2 <- slice_from data (offset + 2 * O + 8);; bt <- read_address d2 O;;
                       d3 <- slice_from data (offset + 2 * O + 8 + O);; hp <- read_address d3 O;; Ok (bt, hp)
                  else Ok (0, 0)) = Ok (bt, hp)).
    { dif; [|eauto].
      destruct (slice_from_ok data (offset + 2 * O + 8)) as (d2 & -> & _); [lia|]. cbn [obind].
      destruct (read_address_ok d2 O) as (bt & ->). cbn [obind].
      destruct (slice_from_ok data (offset + 2 * O + 8 + O)) as (d3 & -> & _); [lia|]. cbn [obind].
      destruct (read_address_ok d3 O) as (hp & ->). cbn [obind]. eauto. }
    destruct Hc as (bt & hp & ->). cbn [obind]. cbv beta iota zeta.
    destruct (IH data (offset + (2 * O + 24)) O HO) as [I1 I2].
    destruct (snod_entries n data (offset + (2 * O + 24)) O) as [rest| |]; cbn [obind].
    + split; [discriminate|]. intros es [= <-]. cbn [length]. f_equal. now apply I2.
    + split; [discriminate|intros; discriminate].
    + congruence.
Qed.

Ltac fin1 := cbn [fst snd]; split; [discriminate|split; [auto|intros; discriminate]].

Lemma snod_parse_spec file addr O :
  bytes_ok file = true -> O <= 8 ->
  fst (snod_parse file addr O) <> Panic /\
  alloc_bounded 0 5242800 file (snd (snod_parse file addr O)) /\
  forall es, fst (snod_parse file addr O) = Ok es ->
             addr + 8 + N.of_nat (length es) * (2 * O + 24) <= blen file /\ N.of_nat (length es) <= 65535.
Proof.
  intros Hb HO. unfold snod_parse.
  assert (B0 : alloc_bounded 0 5242800 file [get_buffer 8]).
  { apply ab_cons; [|apply ab_nil]. unfold get_buffer. dif; lia. }
  destruct (read_at_spec file addr 8) as [Hnp Hok].
  destruct (read_at file addr 8) as [h| |] eqn:Er; [|fin1|congruence].
  destruct (Hok h eq_refl) as (Hl & Hle & Hbh). specialize (Hbh Hb).
  dif; [fin1|].
  destruct (index_ok h 4) as (ver & ->); [lia|].
  destruct (rd_le_lt h 6 2 Hbh) as (nsym & -> & Hu); [lia|]. change (256 ^ 2) with 65536 in Hu.
  dif; [fin1|].
  assert (B1 : alloc_bounded 0 5242800 file ([get_buffer 8] ++ [48 * (if 32 <? nsym then nsym else 32)])).
  { apply ab_app; auto. apply ab_cons; [|apply ab_nil]. dif; lia. }
  dif. { cbn [fst snd]. split; [discriminate|split; [auto|]]. intros es [= <-]. cbn [length]. lia. }
  assert (B2 : alloc_bounded 0 5242800 file
                 (([get_buffer 8] ++ [48 * (if 32 <? nsym then nsym else 32)]) ++ [get_buffer (nsym * (2 * O + 24))])).
  { apply ab_app; auto. apply ab_cons; [|apply ab_nil]. unfold get_buffer. dif; nia. }
  destruct (read_at_spec file (addr + 8) (nsym * (2 * O + 24))) as [Hnp2 Hok2].
  destruct (read_at file (addr + 8) (nsym * (2 * O + 24))) as [data| |] eqn:Er2; [|fin1|congruence].
  destruct (Hok2 data eq_refl) as (Hl2 & Hle2 & _).
  destruct (snod_entries_spec (N.to_nat nsym) data 0 O HO) as [S1 S2].
  cbn [fst snd]. split; [auto|split; [auto|]].
  intros es Hes. apply S2 in Hes. rewrite Hes, N2Nat.id. split; lia.
Qed.

(* ---- the loop over the child pointers ---- *)
Lemma gwalk_no_panic capped file O : bytes_ok file = true -> O <= 8 ->
  forall kids total spanEnd, fst (gwalk capped file O kids total spanEnd) <> Panic.
Proof.
  intros Hb HO. induction kids as [|a r IH]; intros total spanEnd; cbn [gwalk]; [cbn; discriminate|].
  destruct (snod_parse_spec file a O Hb HO) as (Hnp & _ & _).
  destruct (snod_parse file a O) as [[es| |] l]; cbn [fst] in *; [|discriminate|congruence].
  dif; [cbn; discriminate|].
  specialize (IH (total + N.of_nat (length es)) (N.max spanEnd (wrap64 (a + 8 + N.of_nat (length es) * (2 * O + 24))))).
  destruct (gwalk capped file O r _ _) as [res l2]. cbn [fst] in *. exact IH.
Qed.

(* repaired code: the collected entries fit into the file; every request <= 4 * |file| + 5242800 *)
Lemma gwalk_capped_spec file O : bytes_ok file = true -> O <= 8 ->
  forall kids total spanEnd, spanEnd <= blen file -> total * (2 * O + 24) <= blen file ->
  alloc_bounded 4 5242800 file (snd (gwalk true file O kids total spanEnd)) /\
  forall t, fst (gwalk true file O kids total spanEnd) = Ok t -> total <= t /\ t * (2 * O + 24) <= blen file.
Proof.
  intros Hb HO. induction kids as [|a r IH]; intros total spanEnd Hs Ht; cbn [gwalk].
  - cbn [fst snd]. split; [apply ab_nil|]. intros t [= <-]. lia.
  - destruct (snod_parse_spec file a O Hb HO) as (_ & Hab & Hok).
    destruct (snod_parse file a O) as [[es| |] l]; cbn [fst snd] in *.
    + destruct (Hok es eq_refl) as (Hle & Hm). set (m := N.of_nat (length es)) in *.
      set (sp := N.max spanEnd (wrap64 (a + 8 + m * (2 * O + 24)))).
      assert (Hsp : sp <= blen file) by (unfold sp, wrap64; lia).
      cbn [andb]. dif.
      * cbn [fst snd]. split; [eapply ab_weaken; [| |exact Hab]; lia|intros; discriminate].
      * assert (Hfit : (total + m) * (2 * O + 24) <= blen file) by lia.
        destruct (IH (total + m) sp Hsp Hfit) as [I1 I2].
        destruct (gwalk true file O r (total + m) sp) as [res l2]. cbn [fst snd] in *. split.
        -- apply ab_app; [eapply ab_weaken; [| |exact Hab]; lia|]. apply ab_cons; [nia|exact I1].
        -- intros t Hr. destruct (I2 t Hr). split; lia.
    + split; [eapply ab_weaken; [| |exact Hab]; lia|intros; discriminate].
    + split; [eapply ab_weaken; [| |exact Hab]; lia|intros; discriminate].
Qed.

Lemma group_btree_entries_spec file addr O :
  bytes_ok file = true -> O <= 8 ->
  fst (group_btree_entries true file addr O) <> Panic /\
  alloc_bounded 4 5242800 file (snd (group_btree_entries true file addr O)) /\
  forall t, fst (group_btree_entries true file addr O) = Ok t -> t * (2 * O + 24) <= blen file.
Proof.
  intros Hb HO. unfold group_btree_entries.
  destruct (gnode_read_spec file addr O Hb HO) as (Hnp & Hab & _).
  destruct (gnode_read file addr O) as [[kids| |] l]; cbn [fst snd] in *.
  - pose proof (gwalk_no_panic true file O Hb HO kids 0 0) as Gnp.
    destruct (gwalk_capped_spec file O Hb HO kids 0 0) as [G1 G2]; [lia|lia|].
    destruct (gwalk true file O kids 0 0) as [r l2]. cbn [fst snd] in *.
    split; [auto|split].
    + apply ab_app; [eapply ab_weaken; [| |exact Hab]; lia|auto].
    + intros t Hr. now apply G2.
  - split; [discriminate|split; [eapply ab_weaken; [| |exact Hab]; lia|intros; discriminate]].
  - congruence.
Qed.

Lemma group_btree_entries_no_panic capped file addr O :
  bytes_ok file = true -> O <= 8 -> fst (group_btree_entries capped file addr O) <> Panic.
Proof.
  intros Hb HO. unfold group_btree_entries.
  destruct (gnode_read_spec file addr O Hb HO) as (Hnp & _ & _).
  destruct (gnode_read file addr O) as [[kids| |] l]; cbn [fst] in *; [|discriminate|congruence].
  pose proof (gwalk_no_panic capped file O Hb HO kids 0 0) as Gnp.
  destruct (gwalk capped file O kids 0 0) as [r l2]. exact Gnp.
Qed.

(* ---- unrepaired code: n pointers to one node of m entries collect n * m entries ---- *)
Lemma gwalk_uncapped_repeat file O a es l : snod_parse file a O = (Ok es, l) ->
  forall n total spanEnd,
  fst (gwalk false file O (repeat a n) total spanEnd) = Ok (total + N.of_nat n * N.of_nat (length es)) /\
  (n <> 0%nat -> In (96 * (total + N.of_nat n * N.of_nat (length es))) (snd (gwalk false file O (repeat a n) total spanEnd))).
Proof.
  intros Hp. induction n as [|n IH]; intros total spanEnd; cbn [repeat gwalk].
  - cbn [fst snd]. split; [f_equal; lia|congruence].
  - rewrite Hp. cbn [andb].
    specialize (IH (total + N.of_nat (length es)) (N.max spanEnd (wrap64 (a + 8 + N.of_nat (length es) * (2 * O + 24))))).
    destruct (gwalk false file O (repeat a n) _ _) as [res l2]. cbn [fst snd] in *. destruct IH as [I1 I2].
    split; [rewrite I1; f_equal; lia|]. intros _.
    apply in_or_app. right. destruct n as [|n'].
    + left. f_equal. lia.
    + right. replace (total + N.of_nat (S (S n')) * N.of_nat (length es))
        with (total + N.of_nat (length es) + N.of_nat (S n') * N.of_nat (length es)) by lia.
      apply I2. congruence.
Qed.

(* witness: a 14 KiB image, one leaf node whose 256 child pointers all name one symbol table node of 256 entries *)
Definition amp_snod_addr (n : nat) : N := 24 + 16 * N.of_nat n + 8.
Definition amp_file (n m : nat) : bytes :=
  sigTREE ++ [0; 0] ++ le 2 (N.of_nat n) ++ repeat 255 16
  ++ concat (repeat (le 8 0 ++ le 8 (amp_snod_addr n)) n) ++ le 8 0
  ++ sigSNOD ++ [1; 0] ++ le 2 (N.of_nat m) ++ repeat 0 (40 * m).

Lemma group_uncapped_refuted :
  exists file, bytes_ok file = true /\ blen file = 14376 /\
               fst (group_btree_entries false file 0 8) = Ok 65536 /\
               ~ alloc_bounded 4 5242800 file (snd (group_btree_entries false file 0 8)).
Proof.
  exists (amp_file 256 256).
  split; [vm_compute; reflexivity|]. split; [vm_compute; reflexivity|].
  unfold group_btree_entries.
  assert (E1 : exists lg, gnode_read (amp_file 256 256) 0 8 = (Ok (repeat (amp_snod_addr 256) 256), lg))
    by (vm_compute; eauto).
  destruct E1 as (lg & ->).
  assert (E2 : exists es l, snod_parse (amp_file 256 256) (amp_snod_addr 256) 8 = (Ok es, l) /\ length es = 256%nat)
    by (vm_compute; eauto).
  destruct E2 as (es & l & Hp & Hlen).
  destruct (gwalk_uncapped_repeat _ 8 _ es l Hp 256 0 0) as [G1 G2].
  destruct (gwalk false (amp_file 256 256) 8 (repeat (amp_snod_addr 256) 256) 0 0) as [r l2]. cbn [fst snd] in *.
  rewrite Hlen in *. split; [rewrite G1; reflexivity|].
  intros Hab. unfold alloc_bounded in Hab. rewrite Forall_forall in Hab.
  specialize (Hab (96 * (0 + N.of_nat 256 * N.of_nat 256))).
  assert (Hin : In (96 * (0 + N.of_nat 256 * N.of_nat 256)) (lg ++ l2)) by (apply in_or_app; right; apply G2; congruence).
  specialize (Hab Hin).
  assert (Hl : blen (amp_file 256 256) = 14376) by (vm_compute; reflexivity).
  rewrite Hl in Hab. vm_compute in Hab. congruence.
Qed.

(* hypotheses are satisfiable, and the repaired walk refuses the witness *)
Example group_capped_witness : fst (group_btree_entries true (amp_file 8 8) 0 8) = Err.
Proof. vm_compute. reflexivity. Qed.
Example group_ok_example :
  fst (group_btree_entries true (amp_file 1 8) 0 8) = Ok 8 /\ fst (group_btree_entries false (amp_file 3 8) 0 8) = Ok 24.
Proof. vm_compute. split; reflexivity. Qed.
