(* C08 - shuffle filter: the writer's Remove inverts its Apply, the reader's applyShuffle equals the writer's Remove. *)
From HV Require Import Base.Prelude Model.Filters.

Local Open Scope nat_scope.

Lemma length_upd {A} (i : nat) (v : A) l : length (upd i v l) = length l.
Proof. revert i; induction l as [|h t IH]; intros [|i]; cbn [upd length]; auto. Qed.

Lemma nth_upd_same {A} (i : nat) (v d : A) l : i < length l -> nth i (upd i v l) d = v.
Proof.
  revert i; induction l as [|h t IH]; intros [|i] H; cbn [upd nth length] in *; try lia; auto.
  apply IH; lia.
Qed.

Lemma nth_upd_other {A} (i j : nat) (v d : A) l : i <> j -> nth j (upd i v l) d = nth j l d.
Proof.
  revert i j; induction l as [|h t IH]; intros [|i] [|j] H; cbn [upd nth]; auto; try lia.
Qed.

Section Scatter.
  Variables (dst src : nat * nat -> nat) (data : bytes).
  Let step := fun (acc : bytes) (p : nat * nat) => upd (dst p) (nth (src p) data 0%N) acc.

  Lemma length_fold_upd idx acc : length (fold_left step idx acc) = length acc.
  Proof.
    revert acc; induction idx as [|q r IH]; intro acc; cbn [fold_left]; auto.
    rewrite IH. apply length_upd.
  Qed.

  Lemma fold_upd_untouched idx acc j :
    (forall r, In r idx -> dst r <> j) -> nth j (fold_left step idx acc) 0%N = nth j acc 0%N.
  Proof.
    revert acc; induction idx as [|q r IH]; intros acc H; cbn [fold_left]; auto.
    rewrite IH by (intros; apply H; now right).
    apply nth_upd_other. apply H. now left.
  Qed.

  Lemma fold_upd_written (inv : nat -> nat * nat) idx acc :
    (forall p, In p idx -> dst p < length acc) ->
    (forall p, In p idx -> inv (dst p) = p) ->
    forall p, In p idx -> nth (dst p) (fold_left step idx acc) 0%N = nth (src p) data 0%N.
  Proof.
    revert acc; induction idx as [|q r IH]; intros acc Hb Hi p Hp; [destruct Hp|].
    cbn [fold_left].
    assert (Hr : forall p, In p r -> nth (dst p) (fold_left step r (step acc q)) 0%N = nth (src p) data 0%N).
    { apply IH.
      - intros p' H'. unfold step. rewrite length_upd. apply Hb. now right.
      - intros p' H'. apply Hi. now right. }
    destruct Hp as [<-|Hp]; [|now apply Hr].
    assert (Hdec : forall a b : nat * nat, {a = b} + {a <> b}) by (decide equality; apply Nat.eq_dec).
    destruct (in_dec Hdec q r) as [Hin|Hnin]; [now apply Hr|].
    rewrite fold_upd_untouched.
    - unfold step. apply nth_upd_same. apply Hb. now left.
    - intros r' Hr' Heq. apply Hnin.
      assert (r' = q) as -> by (rewrite <- (Hi r') by (now right); rewrite Heq; apply Hi; now left).
      exact Hr'.
  Qed.
End Scatter.

Lemma length_scatter len dst src idx data : length (scatter len dst src idx data) = len.
Proof. unfold scatter. rewrite length_fold_upd. apply repeat_length. Qed.

Lemma scatter_nth len dst src idx data (inv : nat -> nat * nat) j :
  (forall p, In p idx -> dst p < len) ->
  (forall p, In p idx -> inv (dst p) = p) ->
  In (inv j) idx -> dst (inv j) = j ->
  nth j (scatter len dst src idx data) 0%N = nth (src (inv j)) data 0%N.
Proof.
  intros Hb Hi Hin Hj. unfold scatter.
  rewrite <- Hj at 1.
  apply (fold_upd_written dst src data inv); auto.
  intros p Hp. rewrite repeat_length. now apply Hb.
Qed.

Lemma in_loop2 a b p : In p (loop2 a b) <-> fst p < a /\ snd p < b.
Proof.
  destruct p as [x y]. unfold loop2. rewrite in_prod_iff, !in_seq. cbn [fst snd]. lia.
Qed.

(* the three index maps *)
Lemma divmod_major e n b k : k < n -> b < e -> (b * n + k) / n = b /\ (b * n + k) mod n = k.
Proof.
  intros Hk Hb.
  assert (n <> 0) by lia.
  split.
  - rewrite Nat.div_add_l by lia. rewrite Nat.div_small by lia. lia.
  - rewrite Nat.add_comm, Nat.mod_add by lia. apply Nat.mod_small; lia.
Qed.

Lemma divmod_bound e n j : j < e * n -> j / n < e /\ j mod n < n.
Proof.
  intro H. assert (n <> 0) by (destruct n; lia).
  split.
  - apply Nat.div_lt_upper_bound; lia.
  - apply Nat.mod_upper_bound; lia.
Qed.

Lemma divmod_recompose n j : n <> 0 -> (j / n) * n + j mod n = j.
Proof. intro H. pose proof (Nat.div_mod j n H). lia. Qed.

(* gather form of the writer's Apply:  out[j] = data[(j mod n)*e + j/n] *)
Lemma shuffle_scatter_nth e n data j :
  j < e * n ->
  nth j (scatter (e * n) (fun p => fst p * n + snd p) (fun p => snd p * e + fst p) (loop2 e n) data) 0%N
  = nth ((j mod n) * e + j / n) data 0%N.
Proof.
  intro Hj. destruct (divmod_bound e n j Hj) as [H1 H2].
  assert (Hn : n <> 0) by lia.
  rewrite (scatter_nth _ _ _ _ _ (fun j => (j / n, j mod n))); cbn [fst snd]; auto.
  - intros p Hp. apply in_loop2 in Hp. nia.
  - intros [b k] Hp. apply in_loop2 in Hp. cbn [fst snd] in *.
    destruct (divmod_major e n b k) as [-> ->]; tauto.
  - apply in_loop2. cbn [fst snd]. tauto.
  - now apply divmod_recompose.
Qed.

(* gather form of the writer's Remove:  out[j] = data[(j mod e)*n + j/e] *)
Lemma unshuffle_scatter_nth e n data j :
  j < e * n ->
  nth j (scatter (e * n) (fun p => snd p * e + fst p) (fun p => fst p * n + snd p) (loop2 e n) data) 0%N
  = nth ((j mod e) * n + j / e) data 0%N.
Proof.
  intro Hj. assert (Hj' : j < n * e) by lia.
  destruct (divmod_bound n e j Hj') as [H1 H2].
  assert (He : e <> 0) by lia.
  rewrite (scatter_nth _ _ _ _ _ (fun j => (j mod e, j / e))); cbn [fst snd]; auto.
  - intros p Hp. apply in_loop2 in Hp. nia.
  - intros [b k] Hp. apply in_loop2 in Hp. cbn [fst snd] in *.
    destruct (divmod_major n e k b) as [-> ->]; tauto.
  - apply in_loop2. cbn [fst snd]. tauto.
  - now apply divmod_recompose.
Qed.

(* gather form of the reader's applyShuffle: the same function, loops nested the other way round *)
Lemma reader_scatter_nth e n data j :
  j < e * n ->
  nth j (scatter (e * n) (fun p => fst p * e + snd p) (fun p => snd p * n + fst p) (loop2 n e) data) 0%N
  = nth ((j mod e) * n + j / e) data 0%N.
Proof.
  intro Hj. assert (Hj' : j < n * e) by lia.
  destruct (divmod_bound n e j Hj') as [H1 H2].
  assert (He : e <> 0) by lia.
  rewrite (scatter_nth _ _ _ _ _ (fun j => (j / e, j mod e))); cbn [fst snd]; auto.
  - intros p Hp. apply in_loop2 in Hp. nia.
  - intros [k b] Hp. apply in_loop2 in Hp. cbn [fst snd] in *.
    destruct (divmod_major n e k b) as [-> ->]; tauto.
  - apply in_loop2. cbn [fst snd]. tauto.
  - now apply divmod_recompose.
Qed.

(* arithmetic shared by the three entry points: a non-empty payload whose length is a multiple of esz *)
Lemma shuffle_dims (esz : N) (len : nat) :
  (0 < esz)%N -> (N.of_nat len mod esz = 0)%N -> len <> 0 ->
  let e := N.to_nat esz in let n := len / e in e <> 0 /\ n <> 0 /\ len = e * n.
Proof.
  intros He Hm Hl e n. subst e n.
  assert (H0 : N.to_nat esz <> 0) by lia.
  assert (Hmod : len mod N.to_nat esz = 0).
  { apply Nat2N.inj. rewrite Nat2N.inj_mod by lia. rewrite N2Nat.id. exact Hm. }
  pose proof (Nat.div_mod len (N.to_nat esz) H0) as Hd.
  rewrite Hmod in Hd.
  repeat split; auto; try lia.
Qed.

Lemma shuffle_apply_ok esz x :
  (0 < esz)%N -> (N.of_nat (length x) mod esz = 0)%N ->
  exists y, shuffle_apply esz x = Ok y /\ length y = length x.
Proof.
  intros He Hm. unfold shuffle_apply. destruct x as [|a x']; [eexists; split; eauto|].
  set (x := a :: x') in *.
  replace (esz =? 0)%N with false by (symmetry; apply N.eqb_neq; lia).
  rewrite Hm. cbn [N.eqb negb].
  eexists; split; [reflexivity|]. apply length_scatter.
Qed.

Theorem shuffle_inv esz x :
  (0 < esz)%N -> (N.of_nat (length x) mod esz = 0)%N ->
  bind (shuffle_apply esz x) (shuffle_remove esz) = Ok x.
Proof.
  intros He Hm. unfold shuffle_apply. destruct x as [|a x']; [reflexivity|].
  set (x := a :: x') in *.
  replace (esz =? 0)%N with false by (symmetry; apply N.eqb_neq; lia).
  rewrite Hm. cbn [N.eqb negb bind].
  assert (Hl : length x <> 0) by (subst x; cbn [length]; lia).
  destruct (shuffle_dims esz (length x) He Hm Hl) as (He0 & Hn0 & Hlen).
  set (e := N.to_nat esz) in *. set (n := length x / e) in *.
  set (y := scatter _ _ _ _ _).
  assert (Hly : length y = length x) by apply length_scatter.
  unfold shuffle_remove.
  destruct y as [|b y'] eqn:Ey; [cbn [length] in Hly; lia|]. rewrite <- Ey in *. clear Ey b y'.
  replace (esz =? 0)%N with false by (symmetry; apply N.eqb_neq; lia).
  rewrite Hly, Hm. cbn [N.eqb negb]. fold e. fold n.
  f_equal. apply (nth_ext _ _ 0%N 0%N); [apply length_scatter|].
  intros j Hj. rewrite length_scatter in Hj.
  rewrite Hlen in Hj |- *.
  rewrite unshuffle_scatter_nth by exact Hj.
  unfold y. rewrite Hlen.
  assert (Hj2 : j < n * e) by lia.
  destruct (divmod_bound n e j Hj2) as [H1 H2].
  rewrite shuffle_scatter_nth by nia.
  destruct (divmod_major e n (j mod e) (j / e)) as [-> ->]; auto.
  f_equal. pose proof (divmod_recompose e j He0). lia.
Qed.

(* the reader's applyShuffle computes the same function as the writer's Remove - also the same errors *)
Theorem reader_unshuffle_eq esz y :
  (0 < esz)%N -> reader_unshuffle [esz] y = shuffle_remove esz y.
Proof.
  intro He. unfold reader_unshuffle, shuffle_remove.
  destruct y as [|b y']; [reflexivity|]. set (y := b :: y') in *.
  replace (esz =? 0)%N with false by (symmetry; apply N.eqb_neq; lia).
  cbn [orb].
  destruct (N.of_nat (length y) mod esz =? 0)%N eqn:Hm; cbn [negb].
  2:{ now destruct (N.of_nat (length y) <? esz)%N. }
  apply N.eqb_eq in Hm.
  assert (Hl : length y <> 0) by (subst y; cbn [length]; lia).
  destruct (shuffle_dims esz (length y) He Hm Hl) as (He0 & Hn0 & Hlen).
  set (e := N.to_nat esz) in *. set (n := length y / e) in *.
  replace (N.of_nat (length y) <? esz)%N with false.
  2:{ symmetry. apply N.ltb_ge. subst e. nia. }
  f_equal. apply (nth_ext _ _ 0%N 0%N); [now rewrite !length_scatter|].
  intros j Hj. rewrite length_scatter in Hj. rewrite Hlen in Hj |- *.
  rewrite reader_scatter_nth, unshuffle_scatter_nth by exact Hj. reflexivity.
Qed.

(* lengths that are not a multiple of the element size: an error, never a pass-through *)
Theorem shuffle_nonmultiple esz x :
  (0 < esz)%N -> (N.of_nat (length x) mod esz <> 0)%N ->
  shuffle_apply esz x = Err /\ shuffle_remove esz x = Err /\ reader_unshuffle [esz] x = Err.
Proof.
  intros He Hm.
  assert (Hx : x <> []) by (intros ->; cbn [length] in Hm; rewrite N.mod_0_l in Hm; lia).
  assert (R : shuffle_remove esz x = Err).
  { unfold shuffle_remove. destruct x; [congruence|].
    replace (esz =? 0)%N with false by (symmetry; apply N.eqb_neq; lia).
    apply N.eqb_neq in Hm. now rewrite Hm. }
  repeat split; auto.
  - unfold shuffle_apply. destruct x; [congruence|].
    replace (esz =? 0)%N with false by (symmetry; apply N.eqb_neq; lia).
    apply N.eqb_neq in Hm. now rewrite Hm.
  - rewrite reader_unshuffle_eq; auto.
Qed.

(* element size 0: an error on every entry point (repaired: the writer used to divide by zero) *)
Lemma shuffle_esz0_err x : x <> [] -> shuffle_apply 0%N x = Err /\ shuffle_remove 0%N x = Err /\ reader_unshuffle [0%N] x = Err.
Proof. destruct x; [congruence|]. repeat split; reflexivity. Qed.
