(* C03 end to end, reader stages with symbolic addresses, part 2: loadChildren / loadModernGroup / loadObject on groups placed
   anywhere, the loop over n entries with the loader state threaded, and hdf5.Open on a file whose root has n <= 32 children
   that are datasets or empty groups (depth 1). *)
From HV Require Import Base.Prelude Base.Outcome Base.Bytes Model.IOProg Proofs.IOProg Model.IOProgReader Model.IOProgOpen.
From HV Require Import Model.CodecSuper Model.CodecOhdr Model.CodecMsg Model.CodecType Model.CodecLink Model.GroupWire Model.RobustGroup Model.RobustAlloc.
From HV Require Import Proofs.GroupWireHeap Proofs.GroupWireSnod.
From HV Require Import Model.FileImage Model.TreeImage Proofs.FileImage Proofs.FileImageOhdr Proofs.FileImageData.
From HV Require Import Proofs.TreeImageRead Proofs.TreeImageHdr.

Local Open Scope N_scope.

Lemma sig4_placed f A a sg (k : bytes -> prog A) : placed f a sg -> blen sg = 4 ->
  run0 f (p_sig true a k) = run0 f (k sg).
Proof. intros H L. unfold p_sig. apply run0_read_exact; [exact H|]. now rewrite L. Qed.

Lemma filter_leave a l : mem a l = false -> filter (fun x => negb (x =? a)) (a :: l) = l.
Proof.
  intros H. cbn [filter]. rewrite N.eqb_refl. cbn [negb].
  induction l as [|y r IH]; [reflexivity|]. cbn [mem existsb] in H. apply orb_false_iff in H as [H1 H2].
  cbn [filter]. rewrite N.eqb_sym in H1. rewrite H1. cbn [negb]. f_equal. apply IH. exact H2.
Qed.

Section Open.
Variable f : bytes.
Variable B : N.
Variable hfuel : nat.

(* the four blocks of a symbol-table group whose heap is at [a] (the layout of createGroupStructures + header) *)
Definition GroupAt (a : N) (seg : list N) (s : snode) : Prop :=
  placed f a (heap_header (blen seg) 1 (a + 32)) /\ placed f (a + 32) seg /\ blen seg = 256 /\
  placed f (a + 288) (snod_bytes s 32) /\ snode_ok s = true /\ (length (stn_entries s) <= 32)%nat /\
  Forall (fun e => sy_cache e = 0) (stn_entries s) /\
  placed f (a + 1576) (bt_block (a + 288)) /\
  HdrAt f hfuel (a + 2120) (group_ohdr (a + 1576) a) /\ a + 4000 < 4611686018427387904.

Definition with_vbt (st : lstate) (b : N) : lstate := {| vbt := b :: vbt st; loading := loading st; cnt := cnt st |}.

Section Rec.
Variable rec : req -> lstate -> prog (node * lstate).

Lemma children_placed a seg s st : GroupAt a seg s -> mem (a + 1576) (vbt st) = false ->
  run0 f (p_children true SB' rec (a + 1576) a st) =
  run0 f (children_loop true SB' rec seg (map stentry_of (stn_entries s)) (with_vbt st (a + 1576))).
Proof.
  intros (Hh & Hs & Hl & Hn & Hok & Hm & Hc & Hb & Ho & Hbd) Hv.
  unfold p_children. rewrite Hv.
  rewrite run0_bind, (local_heap_placed f a seg Hh Hs) by (rewrite ?Hl; unfold MAXI64; blia).
  assert (HT : placed f (a + 1576) [84; 82; 69; 69]).
  { rewrite bt_block_bytes' in Hb by blia. rewrite <- !app_assoc in Hb.
    change ([84; 82; 69; 69; 0; 0; 1; 0] ++ le 8 UNDEF ++ le 8 UNDEF ++ le 8 0 ++ le 8 (a + 288) ++ le 8 0 ++ zeros 496)
      with ([84; 82; 69; 69] ++ [0; 0; 1; 0] ++ le 8 UNDEF ++ le 8 UNDEF ++ le 8 0 ++ le 8 (a + 288) ++ le 8 0 ++ zeros 496) in Hb.
    now apply placed_head in Hb. }
  rewrite (sig4_placed f _ (a + 1576) [84; 82; 69; 69] _ HT eq_refl).
  change (bytes_eqb [84; 82; 69; 69] [84; 82; 69; 69]) with true. cbv iota.
  rewrite run0_bind, (group_btree_placed f (a + 1576) (a + 288) s Hb) by (auto; blia).
  reflexivity.
Qed.

Lemma modern_placed a seg s st : GroupAt a seg s -> mem (a + 1576) (vbt st) = false ->
  run0 f (p_modern true SB' hfuel rec (a + 2120) st) =
  match run0 f (children_loop true SB' rec seg (map stentry_of (stn_entries s)) (with_vbt st (a + 1576))) with
  | Ok x => Ok (Grp [] (a + 2120) (fst x), snd x) | Err => Err | Panic => Panic end.
Proof.
  intros HG Hv. pose proof HG as (_ & _ & _ & _ & _ & _ & _ & _ & Ho & Hbd).
  destruct (group_ohdr_facts (a + 1576) a (a + 2120)) as (F1 & F2 & F3 & F4 & F5); [blia | blia |].
  unfold p_modern. rewrite (with_header_placed f hfuel _ (a + 2120) _ _ Ho F1).
  cbv zeta. rewrite F2, F3, F4, F5. change (0 =? 0) with true. cbn [orb negb]. cbv iota.
  rewrite run0_bind, (children_placed a seg s st HG Hv). reflexivity.
Qed.

Lemma group_req_placed a x st : HdrAt f hfuel a x -> a <> 0 ->
  run0 f (p_group true rec a st) = run0 f (rec (RModern a) st).
Proof.
  intros Ho Ha. unfold p_group. replace (a =? 0) with false by (symmetry; now apply N.eqb_neq).
  rewrite (sig4_placed f _ a [79; 72; 68; 82] _ (HdrAt_sig f hfuel a x Ho) eq_refl).
  change (bytes_eqb [79; 72; 68; 82] SNOD) with false. reflexivity.
Qed.
End Rec.

(* ------------------------------------------------------------------ the children of a depth-1 group *)
Inductive child := CDset (x : ohdr) | CGroup (seg : list N) (s0 : snode).
Definition ChildAt (a : N) (c : child) : Prop :=
  match c with
  | CDset x => HdrAt f hfuel a x /\ no_attr (oh_msgs x) = true /\ kind_of (oh_msgs x) = 1
  | CGroup seg s0 => exists g, a = g + 2120 /\ GroupAt g seg s0 /\ stn_entries s0 = []
  end.
Definition child_node (nm : bytes) (a : N) (c : child) : node :=
  match c with CDset _ => Dset nm a | CGroup _ _ => Grp nm a [] end.
(* the B-tree a child adds to visitedBTrees *)
Definition child_bt (a : N) (c : child) : list N := match c with CDset _ => [] | CGroup _ _ => [a - 2120 + 1576] end.
Definition child_st (st : lstate) (a : N) (c : child) : lstate :=
  {| vbt := child_bt a c ++ vbt st; loading := loading st; cnt := cnt st + 1 |}.

Lemma enter_ok st a : mem a (loading st) = false -> lenN' (loading st) < 1024 -> cnt st + 1 <= B ->
  enter B st a = EOk {| vbt := vbt st; loading := a :: loading st; cnt := cnt st + 1 |}.
Proof.
  intros H1 H2 H3. unfold enter. rewrite H1.
  replace (1024 <=? lenN' (loading st)) with false by (symmetry; apply N.leb_gt; exact H2).
  replace (B <? cnt st + 1) with false by (symmetry; apply N.ltb_ge; exact H3). reflexivity.
Qed.

Lemma object_child n a nm c st : ChildAt a c ->
  mem a (loading st) = false -> lenN' (loading st) < 1024 -> cnt st + 1 <= B ->
  Forall (fun b => mem b (vbt st) = false) (child_bt a c) ->
  run0 f (p_object true SB' B hfuel (p_load true SB' B hfuel (S (S n))) a nm st) = Ok (child_node nm a c, child_st st a c).
Proof.
  intros HC H1 H2 H3 Hv. unfold p_object. rewrite (enter_ok st a H1 H2 H3).
  set (st1 := {| vbt := vbt st; loading := a :: loading st; cnt := cnt st + 1 |}).
  destruct c as [x | seg s0].
  - destruct HC as (Ho & Hna & Hk).
    rewrite (sig4_placed f _ a [79; 72; 68; 82] _ (HdrAt_sig f hfuel a x Ho) eq_refl).
    change (bytes_eqb [79; 72; 68; 82] SNOD) with false. cbv iota.
    rewrite (with_header_placed f hfuel _ a x _ Ho Hna). cbv zeta.
    unfold proj_ohdr_v2 at 1 2. cbn [ohp_msgs]. rewrite det_type_at, Hk.
    change (1 =? 0) with false. change (1 =? 1) with true. cbv iota.
    cbn [run0_ret]. unfold leave. cbn [fst snd st1 vbt loading cnt]. rewrite run0_ret.
    rewrite (filter_leave a (loading st) H1). reflexivity.
  - destruct HC as (g & -> & HG & He).
    pose proof HG as (_ & _ & _ & _ & _ & _ & _ & _ & Ho & Hbd).
    destruct (group_ohdr_facts (g + 1576) g (g + 2120)) as (F1 & F2 & F3 & F4 & F5); [blia | blia |].
    rewrite (sig4_placed f _ (g + 2120) [79; 72; 68; 82] _ (HdrAt_sig f hfuel _ _ Ho) eq_refl).
    change (bytes_eqb [79; 72; 68; 82] SNOD) with false. cbv iota.
    rewrite (with_header_placed f hfuel _ (g + 2120) _ _ Ho F1). cbv zeta. rewrite F2.
    change (0 =? 0) with true. cbv iota.
    rewrite run0_bind. cbn [p_load dispatch].
    rewrite (group_req_placed _ (g + 2120) _ st1 Ho) by blia.
    cbn [p_load dispatch].
    assert (Hv1 : mem (g + 1576) (vbt st1) = false).
    { cbn [st1 vbt]. cbn [child_bt] in Hv. inversion Hv as [|? ? Hx _]; subst.
      replace (g + 2120 - 2120 + 1576) with (g + 1576) in Hx by blia. exact Hx. }
    rewrite (modern_placed _ g seg s0 st1 HG Hv1). rewrite He. cbn [map children_loop]. rewrite run0_ret.
    cbn [fst snd]. rewrite run0_ret. unfold leave, child_st, child_node, with_vbt. cbn [fst snd st1 vbt loading cnt child_bt app].
    rewrite (filter_leave (g + 2120) (loading st) H1).
    replace (g + 2120 - 2120 + 1576) with (g + 1576) by blia.
    f_equal. f_equal. unfold rename_nonempty. destruct nm; reflexivity.
Qed.

(* the loop of loadChildren over the entries of a node whose children are all ChildAt; state threaded *)
Fixpoint loop_st (st : lstate) (es : list sym) (cs : list (bytes * child)) : lstate :=
  match es, cs with
  | e :: es', nc :: cs' => loop_st (child_st st (sy_obj e) (snd nc)) es' cs'
  | _, _ => st
  end.
Fixpoint loop_nodes (es : list sym) (cs : list (bytes * child)) : list node :=
  match es, cs with
  | e :: es', nc :: cs' => child_node (fst nc) (sy_obj e) (snd nc) :: loop_nodes es' cs'
  | _, _ => []
  end.
Fixpoint loop_bts (es : list sym) (cs : list (bytes * child)) : list N :=
  match es, cs with
  | e :: es', nc :: cs' => child_bt (sy_obj e) (snd nc) ++ loop_bts es' cs'
  | _, _ => []
  end.

Lemma children_loop_depth1 n (seg : list N) : forall es cs st,
  Forall2 (fun e nc => heap_string seg (sy_name e) = Ok (fst nc) /\ ChildAt (sy_obj e) (snd nc)) es cs ->
  Forall (fun e => mem (sy_obj e) (loading st) = false) es -> lenN' (loading st) < 1024 ->
  cnt st + N.of_nat (length es) <= B ->
  NoDup (loop_bts es cs) -> Forall (fun b => mem b (vbt st) = false) (loop_bts es cs) ->
  run0 f (children_loop true SB' (p_load true SB' B hfuel (S (S (S n)))) seg (map stentry_of es) st)
  = Ok (loop_nodes es cs, loop_st st es cs).
Proof.
  induction es as [|e es IH]; intros cs st HF HL H1024 HB HND HV.
  - inversion HF; subst. reflexivity.
  - inversion HF as [|? nc ? cs' (Hn & HC) HF']; subst. destruct nc as [nm c]. cbn [fst snd] in *.
    apply Forall_cons_iff in HL as [HL0 HL].
    cbn [loop_bts snd] in HND, HV. apply Forall_app in HV as [HV0 HV].
    cbn [map children_loop stentry_of is_soft]. change (0 =? 2) with false. cbv iota.
    assert (Ho : placed f (sy_obj e) [79; 72; 68; 82]).
    { destruct c; cbn [ChildAt] in HC.
      - destruct HC as (Ho & _). exact (HdrAt_sig f hfuel _ _ Ho).
      - destruct HC as (g & -> & HG & _). destruct HG as (_ & _ & _ & _ & _ & _ & _ & _ & Ho & _). exact (HdrAt_sig f hfuel _ _ Ho). }
    rewrite (sig4_placed f _ (sy_obj e) [79; 72; 68; 82] _ Ho eq_refl).
    change (bytes_eqb [79; 72; 68; 82] SNOD) with false. rewrite andb_false_r.
    rewrite run0_bind. unfold load_entry, stentry_of. cbv iota beta. rewrite (run0_lift_ok _ _ _ _ f nm Hn).
    change (0 =? 1) with false. cbn [andb].
    change (p_load true SB' B hfuel (S (S (S n))) (RObject (sy_obj e) nm) st)
      with (p_object true SB' B hfuel (p_load true SB' B hfuel (S (S n))) (sy_obj e) nm st).
    cbn [length] in HB.
    rewrite (object_child n (sy_obj e) nm c st HC HL0 H1024) by (auto; blia).
    cbn [fst snd]. rewrite run0_bind. change (fun e0 : sym => (sy_name e0, sy_obj e0, 0, 0, 0)) with stentry_of.
    assert (S1 : Forall (fun e0 => mem (sy_obj e0) (loading (child_st st (sy_obj e) c)) = false) es) by exact HL.
    assert (S2 : lenN' (loading (child_st st (sy_obj e) c)) < 1024) by exact H1024.
    assert (S3 : cnt (child_st st (sy_obj e) c) + N.of_nat (length es) <= B) by (cbn [child_st cnt]; blia).
    assert (S4 : NoDup (loop_bts es cs')).
    { revert HND. clear. induction (child_bt (sy_obj e) c) as [|z r IHr]; intros H; [exact H|]. cbn [app] in H. inversion H; subst. now apply IHr. }
    assert (S5 : Forall (fun b => mem b (vbt (child_st st (sy_obj e) c)) = false) (loop_bts es cs')).
    { cbn [child_st vbt]. apply Forall_forall. intros b Hb.
      assert (Hb0 : mem b (vbt st) = false) by (exact (proj1 (Forall_forall _ _) HV b Hb)).
      unfold mem. rewrite existsb_app. fold (mem b (vbt st)). rewrite Hb0, orb_false_r.
      destruct (existsb (N.eqb b) (child_bt (sy_obj e) c)) eqn:E; [|reflexivity].
      apply existsb_exists in E as (y & Hy & Hey). apply N.eqb_eq in Hey. subst y.
      exfalso. revert HND Hy Hb. clear. intros HND Hy Hb.
      induction (child_bt (sy_obj e) c) as [|z r IHr]; [contradiction|].
      cbn [app] in HND. inversion HND as [|? ? Hni Hnd]; subst. destruct Hy as [->|Hy].
      * apply Hni. apply in_or_app. now right.
      * now apply IHr. }
    rewrite (IH cs' (child_st st (sy_obj e) c) HF' S1 S2 S3 S4 S5). rewrite run0_ret. reflexivity.
Qed.
End Open.

(* ------------------------------------------------------------------ hdf5.Open on a closed file whose root has depth 1 *)
Theorem open_depth1 e (R : list N) hfuel n seg s cs :
  let f := enc_superblock (sb_eof e) ++ R in
  e < 18446744073709551616 -> 80 <= blen R ->
  GroupAt f hfuel 48 seg s ->
  Forall2 (fun e nc => heap_string seg (sy_name e) = Ok (fst nc) /\ ChildAt f hfuel (sy_obj e) (snd nc)) (stn_entries s) cs ->
  NoDup (1624 :: loop_bts (stn_entries s) cs) ->
  run0 f (p_open true (blen f) (S (S (S (S (S n))))) hfuel) = Ok (Grp [47] 2168 (loop_nodes (stn_entries s) cs)).
Proof.
  intros f He HR HG HF HND. pose proof HG as (_ & _ & _ & _ & _ & Hm & _ & _ & Ho & _).
  unfold p_open. unfold f at 1. rewrite sig_any. fold f.
  change (bytes_eqb signature signature) with true. cbn [negb].
  rewrite run0_bind. unfold f at 1. rewrite (superblock_any e R He HR). fold f. cbn [spp_root SB'].
  assert (Hlen : 2168 < blen f).
  { destruct Ho as (_ & (tail & HP & Ht) & _). apply placed_bound in HP. rewrite blen_app in HP.
    unfold enc_ohdr_v2 in HP. rewrite !blen_app in HP. change (blen [79; 72; 68; 82]) with 4 in HP. blia. }
  replace (blen f <=? 2168) with false by (symmetry; apply N.leb_gt; exact Hlen).
  rewrite run0_bind. set (B := blen f / 8 + 1024). set (st0 := {| vbt := []; loading := []; cnt := 0 |}).
  change (p_load true SB' B hfuel (S (S (S (S (S n))))) (RGroup 2168) st0)
    with (p_group true (p_load true SB' B hfuel (S (S (S (S n))))) (48 + 2120) st0).
  rewrite (group_req_placed f hfuel _ (48 + 2120) _ st0 Ho) by discriminate.
  change (p_load true SB' B hfuel (S (S (S (S n)))) (RModern (48 + 2120)) st0)
    with (p_modern true SB' hfuel (p_load true SB' B hfuel (S (S (S n)))) (48 + 2120) st0).
  rewrite (modern_placed f hfuel _ 48 seg s st0 HG eq_refl).
  inversion HND as [|? ? Hni Hnd]; subst.
  rewrite (children_loop_depth1 f B hfuel n seg (stn_entries s) cs (with_vbt st0 (48 + 1576)) HF).
  - cbn [fst snd rename]. reflexivity.
  - apply Forall_forall. intros; reflexivity.
  - reflexivity.
  - cbn [with_vbt cnt st0]. subst B. blia.
  - exact Hnd.
  - apply Forall_forall. intros b Hb. cbn [with_vbt vbt st0 mem existsb]. rewrite orb_false_r.
    apply N.eqb_neq. intros ->. apply Hni. exact Hb.
Qed.
