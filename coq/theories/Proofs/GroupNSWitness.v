(* C03: witnesses for the named exclusions (each is a reproducible defect of the Go code; the same
   histories are replayed against the real code by tools/props/c03unit.py and by the `hist` harness). *)
From HV Require Import Base.Prelude Model.GroupNS Proofs.GroupNSBase Proofs.GroupNSHeap Proofs.GroupNSInv.

Definition b (s : string) : bytes := map N_of_ascii (list_ascii_of_string s).
Definition go (h : list op) := run (step go_cfg) (init go_cfg) h.          (* the tree as it is *)
Definition gob (h : list op) := run (step base_cfg) (init base_cfg) h.      (* before the repairs *)
Definition sp (h : list op) := run (spec_step go_cfg) s_empty h.
Definition all_ok (rs : list result) : bool := forallb is_ok rs.

(* (1) a group reachable through two paths: children listed only under the first path visited *)
Definition h_group_hardlink : list op := [MkGroup (b "/g"); MkGroup (b "/g/x"); HardLink (b "/h") (b "/g")].
Lemma group_hardlink_refuted :
  names_ok go_cfg h_group_hardlink = true /\ all_ok (snd (go h_group_hardlink)) = true /\ all_ok (snd (sp h_group_hardlink)) = true /\
  read_tree go_cfg (fst (go h_group_hardlink)) <> spec_tree (fst (sp h_group_hardlink)) /\
  read_tree go_cfg (fst (go h_group_hardlink)) =
    Some (TNode 0 KGroup [(b "g", TNode 1 KGroup [(b "x", TNode 2 KGroup [])]); (b "h", TNode 1 KGroup [])]).
Proof. vm_compute. repeat split; try reflexivity. discriminate. Qed.

(* (1a) a hard link to an enclosing group.  With the own-ancestor check as an error (653ef00 .. 8c0b97a)
   Open failed; now the link is listed as a group without children *)
Definition cyc_cfg : cfg := {| heap_cap := 256; snod_cap := 32; soft_max := 244; max_depth := 1024;
                               strict_names := true; canon_group_key := true; rc_rollback_fix := true;
                               cycle_is_error := true; check_first := true |}.
Definition h_ancestor_link : list op := [MkGroup (b "/g"); MkGroup (b "/g/h"); HardLink (b "/g/h/up") (b "/g")].
Lemma ancestor_link_refuted :
  all_ok (snd (go h_ancestor_link)) = true /\ all_ok (snd (sp h_ancestor_link)) = true /\
  read_tree cyc_cfg (fst (run (step cyc_cfg) (init cyc_cfg) h_ancestor_link)) = None /\
  read_tree go_cfg (fst (go h_ancestor_link)) =
    Some (TNode 0 KGroup [(b "g", TNode 1 KGroup [(b "h", TNode 2 KGroup [(b "up", TNode 1 KGroup [])])])]).
Proof. vm_compute. repeat split; reflexivity. Qed.

(* (1b) fw.groups does not know the second path: creating under it is refused *)
Definition h_alias_parent : list op := [MkGroup (b "/g"); HardLink (b "/h") (b "/g"); MkGroup (b "/h/x")].
Lemma alias_parent_refuted :
  map is_ok (snd (go h_alias_parent)) = [true; true; false] /\ map is_ok (snd (sp h_alias_parent)) = [true; true; true].
Proof. vm_compute. split; reflexivity. Qed.

(* (2) soft (and external) link objects are shown as empty groups *)
Definition h_soft : list op := [MkDataset (b "/d"); SoftLink (b "/s") (b "/d")].
Lemma soft_link_refuted :
  adm go_cfg s_empty h_soft = true /\ all_ok (snd (go h_soft)) = true /\
  read_tree go_cfg (fst (go h_soft)) = Some (TNode 0 KGroup [(b "d", TNode 1 KData []); (b "s", TNode 2 KGroup [])]) /\
  spec_tree (fst (sp h_soft)) = Some (TNode 0 KGroup [(b "d", TNode 1 KData []); (b "s", TNode 2 KSoft [])]).
Proof. vm_compute. repeat split; reflexivity. Qed.

(* (3) the empty name: CreateGroup("//") and CreateDataset("/") are accepted; the next insertion lands on
   the same heap offset (PrepareForModification's scan finds no used bytes / stops before the lone NUL) *)
Definition h_empty_name : list op := [MkGroup (b "//"); MkGroup (b "/x")].
Lemma empty_name_refuted :
  all_ok (snd (gob h_empty_name)) = true /\
  group_names (fst (gob h_empty_name)) 0 = Some [Some (b "x"); Some (b "x")] /\
  ~ NoDup [Some (b "x"); Some (b "x")].
Proof.
  split; [vm_compute; reflexivity|]. split; [vm_compute; reflexivity|].
  intro H. inversion H as [|? ? H1 H2]; subst. apply H1. left. reflexivity.
Qed.
Definition h_dataset_root : list op := [MkDataset (b "/"); MkDataset (b "/x")].
Lemma dataset_root_refuted :
  all_ok (snd (gob h_dataset_root)) = true /\ group_names (fst (gob h_dataset_root)) 0 = Some [Some (b "x"); Some (b "x")].
Proof. split; vm_compute; reflexivity. Qed.

(* (4) a NUL byte in a name: accepted, read back truncated, duplicates an existing name *)
Definition h_nul_name : list op := [MkGroup (b "/a"); MkGroup (b "/a" ++ [0] ++ b "b")].
Lemma nul_name_refuted :
  all_ok (snd (gob h_nul_name)) = true /\ group_names (fst (gob h_nul_name)) 0 = Some [Some (b "a"); Some (b "a")].
Proof. split; vm_compute; reflexivity. Qed.

(* (5) trailing slash: the group is linked as "a" but registered under the key "/a/";
   nothing can be created under "/a" afterwards (while "/a//b" works) *)
Definition h_trailing_slash : list op := [MkGroup (b "/a/"); MkGroup (b "/a/b"); MkGroup (b "/a//b")].
Lemma trailing_slash_refuted :
  snd (gob h_trailing_slash) = [Ok; Err ENoParent; Ok] /\
  read_tree base_cfg (fst (gob h_trailing_slash)) = Some (TNode 0 KGroup [(b "a", TNode 1 KGroup [(b "b", TNode 3 KGroup [])])]).
Proof. split; vm_compute; reflexivity. Qed.

(* (6) a hard link that fails in linkToParent (duplicate name, full group) leaves the target's stored
   reference count at 2: the rollback decrements the in-memory count to 1 but the RefCount message,
   added when the count became 2, is only rewritten when the count is > 1 *)
Definition h_rollback : list op := [MkDataset (b "/d")].
Definition o_rollback : op := HardLink (b "/d") (b "/d").
Lemma hardlink_rollback_refuted :
  let w := fst (gob h_rollback) in let w' := fst (step_body base_cfg w o_rollback) in
  snd (step_body base_cfg w o_rollback) = Err EDup /\
  option_map refcount (alookup 1 (objects w)) = Some 1 /\ option_map refcount (alookup 1 (objects w')) = Some 2 /\
  ~ same_all (clock w) w w'.
Proof.
  cbv zeta. split; [vm_compute; reflexivity|]. split; [vm_compute; reflexivity|]. split; [vm_compute; reflexivity|].
  intros [_ H]. specialize (H 1). assert (X : 1 < clock (fst (gob h_rollback))) by (vm_compute; reflexivity).
  specialize (H X). vm_compute in H. discriminate.
Qed.

(* ---------------------------------------------------------------- with the three candidate repairs switched on *)
Definition fixed_cfg : cfg := {| heap_cap := 256; snod_cap := 32; soft_max := 244; max_depth := 1024;
                                 strict_names := true; canon_group_key := true; rc_rollback_fix := true; cycle_is_error := false; check_first := true |}.
Definition gof (h : list op) := run (step fixed_cfg) (init fixed_cfg) h.

Lemma repairs_remove_witnesses :
  snd (gof h_empty_name) = [Err EInvalidPath; Ok] /\ snd (gof h_dataset_root) = [Err EInvalidPath; Ok] /\
  snd (gof h_nul_name) = [Ok; Err EInvalidPath] /\
  snd (gof h_trailing_slash) = [Ok; Ok; Err ENoParent] /\
  (let w := fst (gof h_rollback) in
   option_map refcount (alookup 1 (objects (fst (step_body fixed_cfg w o_rollback)))) = Some 1).
Proof. vm_compute. repeat split; reflexivity. Qed.

Lemma no_dup_repaired : forall c h g names, strict_names c = true -> group_names (reach c h) g = Some names ->
  NoDup names /\ Forall (fun x => x <> None) names.
Proof. intros c h g names S. apply no_dup_reach. unfold names_ok. rewrite S. reflexivity. Qed.

(* not_too_deep: with the depth limit at 2, three nested groups cannot be read back *)
Definition shallow_cfg : cfg := {| heap_cap := 256; snod_cap := 32; soft_max := 244; max_depth := 2;
                                   strict_names := true; canon_group_key := true; rc_rollback_fix := true; cycle_is_error := false; check_first := true |}.
Definition h_deep : list op := [MkGroup (b "/a"); MkGroup (b "/a/b"); MkGroup (b "/a/b/c"); MkGroup (b "/a/b/c/d")].
Lemma too_deep_refuted :
  adm shallow_cfg s_empty h_deep = true /\ all_ok (snd (run (step shallow_cfg) (init shallow_cfg) h_deep)) = true /\
  read_tree shallow_cfg (fst (run (step shallow_cfg) (init shallow_cfg) h_deep)) = None /\
  spec_tree (fst (run (spec_step shallow_cfg) s_empty h_deep)) <> None.
Proof. vm_compute. repeat split; try reflexivity. discriminate. Qed.
