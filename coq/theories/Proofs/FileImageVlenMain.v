(* C12 end to end: the composition.  On the image of a variable-length dataset the reader programs return the tree, the
   superblock, the 16-byte references, and every reference resolved through ParseGlobalHeapReference, the program of
   ReadGlobalHeapCollection and the object lookup is the element that was written.  Route: the image restricted to the heap
   writer's extents is the `disk` of the C12 model after the same history (colls_placed), so C12_roundtrip applies and the
   reader model it speaks about agrees with the reader program (p_gheap_read_collection). *)
From HV Require Import Base.Prelude Model.GHeap.
From HV Require Proofs.GHeap.
From HV Require Import Base.Outcome Base.Bytes Model.IOProg Proofs.IOProg Model.IOProgReader Model.IOProgOpen.
From HV Require Import Model.CodecSuper Model.CodecOhdr Model.CodecMsg Model.CodecType.
From HV Require Import Model.FileImage Proofs.FileImage Proofs.FileImageOhdr Proofs.FileImageData Proofs.FileImageProd.
From HV Require Import Model.FileImageVlen Proofs.FileImageVlenHeap Proofs.FileImageVlen.

Local Open Scope N_scope.

(* what the harness (c12.go) and the library's readers do with element i of the raw data: ParseGlobalHeapReference, the
   collection through the reader PROGRAM, the object with that index *)
Definition resolved_on (f refs : bytes) (gfuel : nat) (i : nat) (d : bytes) : Prop :=
  exists id objs,
    parse_reference (rd refs (16 * N.of_nat i) 16) = GHeap.Ok id /\
    run0 f (p_gheap SB' gfuel (h_addr id)) = Ok objs /\
    find (fun x => fst x =? h_idx id) objs = Some (h_idx id, d).

Section Main.
Variable name : bytes.
Variable base : vbase.
Variable dims : list N.
Variable elems : list bytes.
Hypothesis Hname : link_name_ok name = true.
Hypothesis Hdims : dims_ok_vlen dims = true.
Hypothesis Hcount : product dims = N.of_nat (length elems).
Local Notation f := (image_v2_vlen name base dims elems).
Hypothesis Hsmall : blen f < 4611686018427387904.

Lemma run_total : exists fin ids, v_run elems = Some (fin, ids).
Proof. exact (Proofs.GHeap.C12_total_lemma 4096 4096 (v_e0 elems) (map W elems) Proofs.GHeap.params_shipped). Qed.

Theorem elements_resolved gfuel : (N.to_nat (blen f / 16) + 2 <= gfuel)%nat ->
  forall i d, nth_error elems i = Some d -> resolved_on f (v_refs elems) gfuel i d.
Proof.
  intros Hg i d Hi. destruct run_total as (fin & ids & Hrun).
  pose proof (eof_W64 name base dims elems fin ids Hname Hdims Hcount Hrun Hsmall) as Hw.
  destruct (Proofs.GHeap.C12_roundtrip_lemma 4096 4096 _ _ fin ids Proofs.GHeap.params_shipped
              (Hrun' elems fin ids Hrun) Hw) as [_ Hres].
  rewrite writes_map_W in Hres. destruct (Hres i d Hi) as (id & Hid & Hr).
  unfold resolve in Hr.
  destruct (parse_reference (encode_reference id)) as [id'|] eqn:Ep; [|discriminate].
  destruct (read_collection (disk fin) (h_addr id')) as [rc|] eqn:Ec; [|discriminate].
  destruct (get_object (r_objs rc) (h_idx id')) as [o|] eqn:Eo; [|discriminate].
  injection Hr as <-.
  exists id', (map obj_pair (r_objs rc)). split; [|split].
  - unfold v_refs. rewrite (ids_eq elems fin ids Hrun), (refs_nth ids i id Hid). exact Ep.
  - apply (p_gheap_read_collection f (disk fin)
             (colls_placed name base dims elems fin ids Hname Hdims Hcount Hrun) SB' eq_refl).
    + unfold MAXI64. blia.
    + exact Ec.
    + exact Hg.
  - exact (get_object_find _ _ _ Eo).
Qed.

(* the library's own resolution path for a variable-length string element (readVariableString, dataset_reader_compound.go:262 =
   Model/IOProgReader.v api_vlen_string), run on element i of the raw data, returns elems[i] *)
Theorem elements_vlen_string gfuel : (N.to_nat (blen f / 16) + 2 <= gfuel)%nat ->
  forall i d, nth_error elems i = Some d ->
  run0 f (api_vlen_string SB' gfuel (rd (v_refs elems) (16 * N.of_nat i) 16)) = Ok d.
Proof.
  intros Hg i d Hi. destruct run_total as (fin & ids & Hrun).
  pose proof (eof_W64 name base dims elems fin ids Hname Hdims Hcount Hrun Hsmall) as Hw.
  destruct (Proofs.GHeap.C12_roundtrip_lemma 4096 4096 _ _ fin ids Proofs.GHeap.params_shipped
              (Hrun' elems fin ids Hrun) Hw) as [_ Hres].
  rewrite writes_map_W in Hres. destruct (Hres i d Hi) as (id & Hid & Hr).
  assert (Hrd : rd (v_refs elems) (16 * N.of_nat i) 16 = encode_reference id).
  { unfold v_refs. rewrite (ids_eq elems fin ids Hrun). exact (refs_nth ids i id Hid). }
  rewrite Hrd. set (ref := encode_reference id) in *.
  assert (L : blen ref = 16) by apply enc_ref_len.
  unfold resolve, parse_reference in Hr. rewrite gblen, L in Hr. change (16 <? 12) with false in Hr. cbv iota in Hr.
  cbn [h_addr h_idx] in Hr.
  destruct (read_collection (disk fin) (unle (GHeap.slice ref 0 8))) as [rc|] eqn:Ec; [|discriminate].
  destruct (get_object (r_objs rc) (unle (GHeap.slice ref 8 4))) as [o|] eqn:Eo; [|discriminate].
  injection Hr as Hd.
  unfold api_vlen_string. cbn [SB' spp_offsize]. change (negb ((8 =? 4) || (8 =? 8))) with false. cbv iota.
  rewrite L. change (16 <? 8 + 4) with false. cbv iota.
  unfold rd_le, Bytes.slice. rewrite L.
  change ((0 <=? 0 + 8) && (0 + 8 <=? 16)) with true. change ((8 <=? 8 + 4) && (8 + 4 <=? 16)) with true. cbv iota.
  cbn [obind lift bind fst snd].
  change (firstn (N.to_nat (0 + 8 - 0)) (skipn (N.to_nat 0) ref)) with (GHeap.slice ref 0 8).
  change (firstn (N.to_nat (8 + 4 - 8)) (skipn (N.to_nat 8) ref)) with (GHeap.slice ref 8 4).
  assert (Hpos : v_e0 elems <= unle (GHeap.slice ref 0 8)).
  { apply (read_collection_ge (disk fin) _ rc); [|exact Ec]. intros a0 b Hin.
    apply (chain_ge _ _ _ a0 b (heap_chain elems fin ids Hrun)). now apply in_rev in Hin. }
  replace (unle (GHeap.slice ref 0 8) =? 0) with false
    by (symmetry; apply N.eqb_neq; unfold v_e0 in Hpos; change DATA_ADDR with 2195 in Hpos; blia).
  rewrite run0_bind.
  rewrite (p_gheap_read_collection f (disk fin)
             (colls_placed name base dims elems fin ids Hname Hdims Hcount Hrun) SB' eq_refl ltac:(unfold MAXI64; blia) _ rc gfuel Ec Hg).
  rewrite (get_object_find _ _ _ Eo). cbn [snd]. rewrite Hd. reflexivity.
Qed.

Theorem file_roundtrip_vlen fuel hfuel gfuel : (3 <= fuel)%nat -> (3 < hfuel)%nat -> (N.to_nat (blen f / 16) + 2 <= gfuel)%nat ->
  let da := v_dset_addr elems in let refs := v_refs elems in
  run0 f (p_open true (blen f) fuel hfuel) = Ok (Grp [47] ROOT_ADDR [Dset name da]) /\
  run0 f p_superblock = Ok SB' /\
  run0 f (api_read_raw SB' hfuel da) = Ok (RawBytes refs) /\
  blen refs = 16 * N.of_nat (length elems) /\
  (forall i d, nth_error elems i = Some d -> resolved_on f refs gfuel i d) /\
  (exists h d bd s, run0 f (p_ohdr SB' hfuel da) = Ok h /\
    match find_msg 3 (ohp_msgs h) with Some b => dec_datatype b | None => Err end = Ok d /\
    (dt_class d, dt_size d, dt_cbf d) = (DT_VLEN, 16, vl_bits base) /\
    dec_datatype (dt_props d) = Ok bd /\ (dt_class bd, dt_size bd, dt_cbf bd) = base_cls base /\
    match find_msg 1 (ohp_msgs h) with Some b => dec_dataspace b | None => Err end = Ok s /\ dsp_dims s = dims).
Proof.
  intros Hf Hh Hg da refs. destruct run_total as (fin & ids & Hrun).
  destruct fuel as [|[|[|n]]]; try blia.
  destruct (open_vlen name base dims elems fin ids Hname Hdims Hcount Hrun Hsmall n hfuel (blen f / 8 + 1024) Hh ltac:(blia) eq_refl)
    as [Hsb Hop].
  split; [exact Hop|]. split; [exact Hsb|].
  split; [exact (dataset_read_v name base dims elems fin ids Hname Hdims Hcount Hrun Hsmall hfuel Hh)|].
  split; [exact (refs_blen elems fin ids Hrun)|].
  split; [exact (elements_resolved gfuel Hg)|].
  exact (dataset_type_shape_v name base dims elems fin ids Hname Hdims Hcount Hrun Hsmall hfuel Hh).
Qed.

(* the file ends where the heap writer's last collection ends = the end-of-file address Close records in the superblock *)
Theorem image_vlen_length : blen f = v_eof elems.
Proof.
  destruct run_total as (fin & ids & Hrun). rewrite (eof_eq elems fin ids Hrun).
  exact (image_len_v name base dims elems fin ids Hname Hdims Hcount Hrun).
Qed.
End Main.

Lemma file_roundtrip_vlen_stmt : forall name base dims elems fuel hfuel gfuel,
  link_name_ok name = true -> dims_ok_vlen dims = true -> product dims = N.of_nat (length elems) ->
  let f := image_v2_vlen name base dims elems in
  blen f < 4611686018427387904 ->
  (3 <= fuel)%nat -> (3 < hfuel)%nat -> (N.to_nat (blen f / 16) + 2 <= gfuel)%nat ->
  let da := v_dset_addr elems in let refs := v_refs elems in
  run0 f (p_open true (blen f) fuel hfuel) = Ok (Grp [47] ROOT_ADDR [Dset name da]) /\
  run0 f p_superblock = Ok SB' /\
  run0 f (api_read_raw SB' hfuel da) = Ok (RawBytes refs) /\
  blen refs = 16 * N.of_nat (length elems) /\
  (forall i d, nth_error elems i = Some d -> resolved_on f refs gfuel i d) /\
  (exists h d bd s, run0 f (p_ohdr SB' hfuel da) = Ok h /\
    match find_msg 3 (ohp_msgs h) with Some b => dec_datatype b | None => Err end = Ok d /\
    (dt_class d, dt_size d, dt_cbf d) = (DT_VLEN, 16, vl_bits base) /\
    dec_datatype (dt_props d) = Ok bd /\ (dt_class bd, dt_size bd, dt_cbf bd) = base_cls base /\
    match find_msg 1 (ohp_msgs h) with Some b => dec_dataspace b | None => Err end = Ok s /\ dsp_dims s = dims).
Proof. intros. now apply file_roundtrip_vlen. Qed.

(* the hypotheses are satisfiable: "/v" = three strings "hi", "", "x" *)
Example file_roundtrip_vlen_witness :
  link_name_ok [118] = true /\ dims_ok_vlen [3] = true /\ product [3] = N.of_nat (length [[104; 105]; []; [120]]) /\
  blen (image_v2_vlen [118] VString [3] [[104; 105]; []; [120]]) = 6601.
Proof. vm_compute. repeat split. Qed.
