(* C18 - soundness of the lockset discipline over the interleaving semantics of Model/Conc.v. *)
From HV Require Import Base.Prelude Model.Conc.
From Coq Require Import Arith.

Local Open Scope nat_scope.

(* ---------------------------------------------------------------- lists *)
Lemma memN_In m l : memN m l = true <-> In m l.
Proof.
  unfold memN. rewrite existsb_exists. split.
  - intros [x [Hi He]]. apply N.eqb_eq in He. subst. exact Hi.
  - intros H. exists m. split; [exact H | apply N.eqb_refl].
Qed.

Lemma memN_false m l : memN m l = false <-> ~ In m l.
Proof.
  split; intros H.
  - intros Hi. apply memN_In in Hi. congruence.
  - destruct (memN m l) eqn:E; [apply memN_In in E; contradiction | reflexivity].
Qed.

Lemma In_removeN m x l : In x (removeN m l) -> In x l.
Proof.
  induction l as [|a l IH]; cbn [removeN]; [tauto|].
  destruct (N.eqb m a); cbn [In]; intros H; [right; auto | destruct H; [left; auto | right; auto]].
Qed.

Lemma nth_error_upd_eq {A} (l : list A) i v a : nth_error l i = Some a -> nth_error (upd l i v) i = Some v.
Proof.
  revert i. induction l as [|b l IH]; intros [|i]; cbn; try discriminate; auto.
Qed.

Lemma nth_error_upd_neq {A} (l : list A) i j v : i <> j -> nth_error (upd l i v) j = nth_error l j.
Proof.
  revert i j. induction l as [|b l IH]; intros [|i] [|j] Hne; cbn; try reflexivity; try congruence.
  apply IH. congruence.
Qed.

(* ---------------------------------------------------------------- one step, seen from thread j *)
(* equality up to the run flag *)
Definition sim (a b : thread) : Prop :=
  t_lab a = t_lab b /\ t_prog a = t_prog b /\ t_w a = t_w b /\ t_r a = t_r b.

Lemma sim_refl a : sim a a. Proof. unfold sim. tauto. Qed.

Lemma effect_pool a s pool' j x :
  nth_error (s_pool (effect a s pool')) j = Some x ->
  exists y, nth_error pool' j = Some y /\ sim x y /\ (t_run x = t_run y \/ (a = ASpawn j /\ t_run x = true)).
Proof.
  destruct a; cbn [effect s_pool]; try (intros H; exists x; split; [exact H | split; [apply sim_refl | left; reflexivity]]).
  destruct (nth_error pool' t) as [th0|] eqn:E.
  - destruct (Nat.eq_dec t j) as [->|Hne].
    + rewrite (nth_error_upd_eq _ _ _ _ E). intros H. inversion H; subst. exists th0. split; [exact E|].
      split; [unfold sim, set_run; cbn; tauto | right; split; reflexivity].
    + rewrite nth_error_upd_neq by exact Hne. intros H. exists x. split; [exact H | split; [apply sim_refl | left; reflexivity]].
  - intros H. exists x. split; [exact H | split; [apply sim_refl | left; reflexivity]].
Qed.

Lemma effect_rest a s pool' :
  s_panic (effect a s pool') = s_panic s.
Proof. destruct a; reflexivity. Qed.

(* what a step does: either the panic flag is raised and nothing else changes, or thread i advances by
   its head action (own lock sets updated by w_after / r_after), every other thread keeps label,
   program and lock sets *)
Lemma step_inv s i s' : step s i s' ->
  exists th a rest, nth_error (s_pool s) i = Some th /\ t_run th = true /\ t_prog th = a :: rest /\
    guard a s = true /\ s_panic s = false /\
    ((s_pool s' = s_pool s /\ s_panic s' = true) \/
     (s_panic s' = false /\
      forall j x, nth_error (s_pool s') j = Some x ->
        if Nat.eq_dec j i
        then sim x (mkT true (t_lab th) rest (w_after a (t_w th)) (r_after a (t_r th)))
        else exists y, nth_error (s_pool s) j = Some y /\ sim x y /\
                       (t_run x = t_run y \/ (a = ASpawn j /\ t_run x = true)))).
Proof.
  unfold step, step_fn. destruct (s_panic s) eqn:Hp; [discriminate|].
  destruct (nth_error (s_pool s) i) as [th|] eqn:Hi; [|discriminate].
  destruct (t_run th) eqn:Hr; cbn [negb]; [|discriminate].
  destruct (t_prog th) as [|a rest] eqn:Hprog; [discriminate|].
  destruct (guard a s) eqn:Hg; cbn [negb]; [|discriminate].
  destruct (panics a s th) eqn:Hpan; intros H; inversion H; subst; clear H;
    exists th, a, rest; repeat (split; [assumption || reflexivity|]).
  - left. cbn. auto.
  - right. split; [rewrite effect_rest; exact Hp|].
    intros j x Hx. apply effect_pool in Hx. destruct Hx as [y [Hy [Hs Hrun]]].
    destruct (Nat.eq_dec j i) as [->|Hne].
    + rewrite (nth_error_upd_eq _ _ _ _ Hi) in Hy. inversion Hy; subst. exact Hs.
    + rewrite nth_error_upd_neq in Hy by congruence. exists y. auto.
Qed.

(* ---------------------------------------------------------------- invariants *)
Definition scan_inv (P : pmap) (s : state) : Prop :=
  forall i th, nth_error (s_pool s) i = Some th -> scan P (t_lab th) (t_w th) (t_r th) (t_prog th) = true.

Definition mutex_inv (s : state) : Prop :=
  forall i j thi thj m, i <> j -> nth_error (s_pool s) i = Some thi -> nth_error (s_pool s) j = Some thj ->
    In m (t_w thi) -> ~ In m (t_w thj) /\ ~ In m (t_r thj).

Definition label_inv (labs : list nat) (s : state) : Prop :=
  forall i th, nth_error (s_pool s) i = Some th -> nth_error labs i = Some (t_lab th).

Lemma scan_inv_step P s i s' : scan_inv P s -> step s i s' -> scan_inv P s'.
Proof.
  intros Hinv Hst. apply step_inv in Hst.
  destruct Hst as [th [a [rest [Hi [_ [Hprog [_ [_ [[Hpool _]|[_ Hall]]]]]]]]]].
  - unfold scan_inv. rewrite Hpool. exact Hinv.
  - intros j x Hx. specialize (Hall j x Hx). destruct (Nat.eq_dec j i) as [->|Hne].
    + destruct Hall as [Hl [Hp [Hw Hr]]]; cbn in Hl, Hp, Hw, Hr. rewrite Hl, Hp, Hw, Hr.
      specialize (Hinv i th Hi). rewrite Hprog in Hinv. cbn [scan] in Hinv.
      apply andb_true_iff in Hinv. tauto.
    + destruct Hall as [y [Hy [[Hl [Hp [Hw Hr]]] _]]]. rewrite Hl, Hp, Hw, Hr. exact (Hinv j y Hy).
Qed.

Lemma label_inv_step labs s i s' : label_inv labs s -> step s i s' -> label_inv labs s'.
Proof.
  intros Hinv Hst. apply step_inv in Hst.
  destruct Hst as [th [a [rest [Hi [_ [Hprog [_ [_ [[Hpool _]|[_ Hall]]]]]]]]]].
  - unfold label_inv. rewrite Hpool. exact Hinv.
  - intros j x Hx. specialize (Hall j x Hx). destruct (Nat.eq_dec j i) as [->|Hne].
    + destruct Hall as [Hl _]; cbn in Hl. rewrite Hl. exact (Hinv i th Hi).
    + destruct Hall as [y [Hy [[Hl _] _]]]. rewrite Hl. exact (Hinv j y Hy).
Qed.

Lemma nobody_w_spec m pool j th : nobody_w m pool = true -> nth_error pool j = Some th -> ~ In m (t_w th).
Proof.
  unfold nobody_w. rewrite forallb_forall. intros H Hj. apply nth_error_In in Hj. specialize (H th Hj).
  apply negb_true_iff in H. apply memN_false. exact H.
Qed.

Lemma nobody_r_spec m pool j th : nobody_r m pool = true -> nth_error pool j = Some th -> ~ In m (t_r th).
Proof.
  unfold nobody_r. rewrite forallb_forall. intros H Hj. apply nth_error_In in Hj. specialize (H th Hj).
  apply negb_true_iff in H. apply memN_false. exact H.
Qed.

(* lock sets of the stepping thread: what is new comes from an acquisition allowed by the guard *)
Lemma w_after_In a w m : In m (w_after a w) -> In m w \/ a = ALock m.
Proof.
  destruct a; cbn [w_after]; auto.
  - intros [->|H]; auto.
  - intros H. left. eapply In_removeN; eauto.
Qed.

Lemma r_after_In a r m : In m (r_after a r) -> In m r \/ a = ARLock m.
Proof.
  destruct a; cbn [r_after]; auto.
  - intros [->|H]; auto.
  - intros H. left. eapply In_removeN; eauto.
Qed.

Lemma mutex_inv_step s i s' : mutex_inv s -> step s i s' -> mutex_inv s'.
Proof.
  intros Hinv Hst. apply step_inv in Hst.
  destruct Hst as [th [a [rest [Hi [_ [Hprog [Hg [_ [[Hpool _]|[_ Hall]]]]]]]]]].
  - unfold mutex_inv. rewrite Hpool. exact Hinv.
  - intros j k xj xk m Hjk Hj Hk Hm.
    pose proof (Hall j xj Hj) as Aj. pose proof (Hall k xk Hk) as Ak.
    destruct (Nat.eq_dec j i) as [->|Hji]; destruct (Nat.eq_dec k i) as [->|Hki]; try congruence.
    + (* j is the stepping thread, k another *)
      destruct Aj as [_ [_ [Hw _]]]; cbn in Hw. destruct Ak as [y [Hy [[_ [_ [Hyw Hyr]]] _]]].
      rewrite Hw in Hm. rewrite Hyw, Hyr. apply w_after_In in Hm. destruct Hm as [Hm|Ha].
      * exact (Hinv i k th y m Hjk Hi Hy Hm).
      * subst a. cbn [guard] in Hg. apply andb_true_iff in Hg. destruct Hg as [G1 G2].
        split; [eapply nobody_w_spec; eauto | eapply nobody_r_spec; eauto].
    + (* k is the stepping thread, j another that holds m for writing *)
      destruct Ak as [_ [_ [Hw Hr]]]; cbn in Hw, Hr. destruct Aj as [y [Hy [[_ [_ [Hyw _]]] _]]].
      rewrite Hyw in Hm. rewrite Hw, Hr.
      assert (Hold := Hinv j i y th m Hjk Hy Hi Hm).
      split; intros Hin.
      * apply w_after_In in Hin. destruct Hin as [Hin|Ha]; [tauto|].
        subst a. cbn [guard] in Hg. apply andb_true_iff in Hg. destruct Hg as [G1 _].
        exact (nobody_w_spec _ _ _ _ G1 Hy Hm).
      * apply r_after_In in Hin. destruct Hin as [Hin|Ha]; [tauto|].
        subst a. cbn [guard] in Hg. exact (nobody_w_spec _ _ _ _ Hg Hy Hm).
    + destruct Aj as [y [Hy [[_ [_ [Hyw _]]] _]]]. destruct Ak as [z [Hz [[_ [_ [Hzw Hzr]]] _]]].
      rewrite Hyw in Hm. rewrite Hzw, Hzr. exact (Hinv j k y z m Hjk Hy Hz Hm).
Qed.

(* ---------------------------------------------------------------- happens-before by spawn *)
Definition child_running (s : state) (ic : nat) : bool :=
  match nth_error (s_pool s) ic with Some th => t_run th | None => false end.

Definition handoff_inv1 (x : N) (ip ic : nat) (s : state) : Prop :=
  ip <> ic /\
  (forall j th, nth_error (s_pool s) j = Some th -> j <> ip ->
     existsb (spawns ic) (t_prog th) = false /\ (j <> ic -> existsb (accesses x) (t_prog th) = false)) /\
  (forall th, nth_error (s_pool s) ip = Some th -> hs_ok x ic (child_running s ic) (t_prog th) = true).

Definition handoff_inv (P : pmap) (s : state) : Prop :=
  forall x ip ic, P x = Some (PHandoff ip ic) -> handoff_inv1 x ip ic s.

Lemma hs_ok_mono x c p : forall sp sp', (sp' = true -> sp = true) -> hs_ok x c sp p = true -> hs_ok x c sp' p = true.
Proof.
  induction p as [|a r IH]; intros sp sp' Himp; cbn [hs_ok]; [auto|].
  intros H. apply andb_true_iff in H. destruct H as [H1 H2]. apply andb_true_iff. split.
  - destruct (accesses x a); [|reflexivity]. destruct sp'; [|reflexivity].
    rewrite (Himp eq_refl) in H1. exact H1.
  - eapply IH; [|exact H2]. intros H. apply orb_true_iff in H. apply orb_true_iff.
    destruct H as [H|H]; [left; auto | right; exact H].
Qed.

Lemma existsb_tail {A} (f : A -> bool) a r : existsb f (a :: r) = false -> f a = false /\ existsb f r = false.
Proof. cbn [existsb]. intros H. apply orb_false_iff in H. exact H. Qed.

Lemma handoff_inv1_step x ip ic s i s' : handoff_inv1 x ip ic s -> step s i s' -> handoff_inv1 x ip ic s'.
Proof.
  intros [Hne [Hoth Hpar]] Hst. apply step_inv in Hst.
  destruct Hst as [th [a [rest [Hi [Hrun [Hprog [_ [_ [[Hpool _]|[_ Hall]]]]]]]]]].
  - unfold handoff_inv1, child_running. rewrite Hpool. auto.
  - (* the child can only have become running through `ASpawn ic` executed by thread i *)
    assert (Hcr : child_running s' ic = true -> child_running s ic = true \/ a = ASpawn ic).
    { unfold child_running. destruct (nth_error (s_pool s') ic) as [xc|] eqn:Ec; [|discriminate].
      intros Hr. specialize (Hall ic xc Ec). destruct (Nat.eq_dec ic i) as [->|Hci].
      - left. rewrite Hi. exact Hrun.
      - destruct Hall as [y [Hy [_ [Heq|[Ha _]]]]]; [left; rewrite Hy, <- Heq; exact Hr | right; exact Ha]. }
    split; [exact Hne|]. split.
    + intros j xj Hj Hjp. specialize (Hall j xj Hj). destruct (Nat.eq_dec j i) as [->|Hji].
      * destruct Hall as [_ [Hp _]]; cbn in Hp. rewrite Hp.
        destruct (Hoth i th Hi Hjp) as [A B]. rewrite Hprog in A. apply existsb_tail in A. split; [tauto|].
        intros Hic. specialize (B Hic). rewrite Hprog in B. apply existsb_tail in B. tauto.
      * destruct Hall as [y [Hy [[_ [Hp _]] _]]]. rewrite Hp. exact (Hoth j y Hy Hjp).
    + intros xp Hxp. specialize (Hall ip xp Hxp). destruct (Nat.eq_dec ip i) as [->|Hpi].
      * destruct Hall as [_ [Hp _]]; cbn in Hp. rewrite Hp.
        specialize (Hpar th Hi). rewrite Hprog in Hpar. cbn [hs_ok] in Hpar.
        apply andb_true_iff in Hpar. destruct Hpar as [_ Hrest].
        eapply hs_ok_mono; [|exact Hrest]. intros Hc. apply Hcr in Hc. apply orb_true_iff.
        destruct Hc as [Hc|Hc]; [left; exact Hc | right; subst a; cbn; apply Nat.eqb_refl].
      * destruct Hall as [y [Hy [[_ [Hp _]] _]]]. rewrite Hp. specialize (Hpar y Hy).
        eapply hs_ok_mono; [|exact Hpar]. intros Hc. apply Hcr in Hc. destruct Hc as [Hc|Hc]; [exact Hc|].
        (* thread i <> ip cannot contain ASpawn ic *)
        exfalso. assert (Hip : i <> ip) by congruence.
        destruct (Hoth i th Hi Hip) as [A _]. rewrite Hprog in A. apply existsb_tail in A.
        destruct A as [A _]. subst a. cbn in A. rewrite Nat.eqb_refl in A. discriminate.
Qed.

Lemma handoff_inv_step P s i s' : handoff_inv P s -> step s i s' -> handoff_inv P s'.
Proof. intros H Hst x ip ic Hp. eapply handoff_inv1_step; eauto. Qed.

Lemma nth_error_indexed {A} (l : list A) : forall k j a, nth_error l j = Some a -> In (k + j, a) (indexed k l).
Proof.
  induction l as [|b l IH]; intros k [|j] a H; cbn in H; try discriminate.
  - inversion H; subst. cbn. left. f_equal. lia.
  - cbn [indexed]. right. replace (k + S j) with (S k + j) by lia. apply IH. exact H.
Qed.

Lemma handoff_init x ip ic ths : handoff_ok x ip ic ths = true -> handoff_inv1 x ip ic (init_state ths).
Proof.
  unfold handoff_ok. intros H. apply andb_true_iff in H. destruct H as [H H3].
  apply andb_true_iff in H. destruct H as [H1 H2].
  apply negb_true_iff in H1. apply Nat.eqb_neq in H1. rewrite forallb_forall in H3.
  assert (Hnth : forall j th, nth_error (s_pool (init_state ths)) j = Some th ->
            exists run lab p, nth_error ths j = Some (run, lab, p) /\ th = init_thread run lab p).
  { intros j th Hj. cbn [init_state s_pool] in Hj. rewrite nth_error_map in Hj.
    destruct (nth_error ths j) as [[[run lab] p]|]; cbn in Hj; [|discriminate]. inversion Hj. eauto. }
  split; [exact H1|]. split.
  - intros j th Hj Hjp. destruct (Hnth j th Hj) as [run [lab [p [Hn ->]]]]. cbn [init_thread t_prog].
    specialize (H3 (j, (run, lab, p)) (nth_error_indexed ths 0 j _ Hn)). cbn in H3.
    apply Nat.eqb_neq in Hjp. rewrite Hjp in H3. apply andb_true_iff in H3. destruct H3 as [A B].
    apply negb_true_iff in A. split; [exact A|]. intros Hjc. apply Nat.eqb_neq in Hjc. rewrite Hjc in B.
    cbn in B. apply negb_true_iff in B. exact B.
  - intros th Hp. destruct (Hnth ip th Hp) as [run [lab [p [Hn ->]]]]. cbn [init_thread t_prog].
    specialize (H3 (ip, (run, lab, p)) (nth_error_indexed ths 0 ip _ Hn)). cbn in H3.
    rewrite Nat.eqb_refl in H3.
    assert (Hc : child_running (init_state ths) ic = false).
    { unfold child_running. cbn [init_state s_pool]. rewrite nth_error_map.
      destruct (nth_error ths ic) as [[[runc labc] pc]|]; cbn; [|reflexivity].
      apply negb_true_iff in H2. exact H2. }
    rewrite Hc. exact H3.
Qed.

(* ---------------------------------------------------------------- no race under the invariants *)
Lemma next_access_head th x k :
  next_access th = Some (x, k) ->
  exists rest, t_prog th = match k with KR => ARead x | KW => AWrite x | KA => AAtomic x end :: rest.
Proof.
  unfold next_access. destruct (t_run th); [|discriminate].
  destruct (t_prog th) as [|a rest]; [discriminate|].
  destruct a; try discriminate; intros H; inversion H; subst; eexists; reflexivity.
Qed.

Lemma scan_head P lab w r a rest : scan P lab w r (a :: rest) = true -> access_ok P lab w r a = true.
Proof. cbn [scan]. intros H. apply andb_true_iff in H. tauto. Qed.

Lemma no_race_inv P labs s :
  scan_inv P s -> mutex_inv s -> label_inv labs s -> handoff_inv P s ->
  (forall x t, P x = Some (PConfined t) -> unique_label t labs) ->
  ~ race s.
Proof.
  intros Hscan Hmut Hlab Hho Huniq [i [j [thi [thj [x [k1 [k2 [Hij [Hi [Hj [Ni [Nj Hc]]]]]]]]]]]].
  pose proof Ni as Ni0. pose proof Nj as Nj0.
  apply next_access_head in Ni. apply next_access_head in Nj.
  destruct Ni as [ri Pi]. destruct Nj as [rj Pj].
  pose proof (Hscan i thi Hi) as Si. pose proof (Hscan j thj Hj) as Sj.
  rewrite Pi in Si. rewrite Pj in Sj. apply scan_head in Si. apply scan_head in Sj.
  assert (Hji : j <> i) by congruence.
  destruct (P x) as [[m|t|ip ic| |]|] eqn:Px.
  - (* common lock *)
    assert (Wi : forall k, k <> KR ->
              access_ok P (t_lab thi) (t_w thi) (t_r thi)
                (match k with KR => ARead x | KW => AWrite x | KA => AAtomic x end) = true ->
              In m (t_w thi)).
    { intros k Hk. destruct k; [congruence| |]; cbn [access_ok]; rewrite Px; apply memN_In. }
    assert (Wj : forall k, k <> KR ->
              access_ok P (t_lab thj) (t_w thj) (t_r thj)
                (match k with KR => ARead x | KW => AWrite x | KA => AAtomic x end) = true ->
              In m (t_w thj)).
    { intros k Hk. destruct k; [congruence| |]; cbn [access_ok]; rewrite Px; apply memN_In. }
    assert (Ri : access_ok P (t_lab thi) (t_w thi) (t_r thi) (ARead x) = true -> In m (t_w thi) \/ In m (t_r thi)).
    { cbn [access_ok]. rewrite Px. intros H. apply orb_true_iff in H. rewrite !memN_In in H. exact H. }
    assert (Rj : access_ok P (t_lab thj) (t_w thj) (t_r thj) (ARead x) = true -> In m (t_w thj) \/ In m (t_r thj)).
    { cbn [access_ok]. rewrite Px. intros H. apply orb_true_iff in H. rewrite !memN_In in H. exact H. }
    destruct k1, k2; try discriminate Hc.
    + (* R / W *) specialize (Wj KW ltac:(discriminate) Sj). specialize (Ri Si).
      destruct (Hmut j i thj thi m Hji Hj Hi Wj). tauto.
    + (* R / A *) specialize (Wj KA ltac:(discriminate) Sj). specialize (Ri Si).
      destruct (Hmut j i thj thi m Hji Hj Hi Wj). tauto.
    + (* W / R *) specialize (Wi KW ltac:(discriminate) Si). specialize (Rj Sj).
      destruct (Hmut i j thi thj m Hij Hi Hj Wi). tauto.
    + specialize (Wi KW ltac:(discriminate) Si). specialize (Wj KW ltac:(discriminate) Sj).
      destruct (Hmut i j thi thj m Hij Hi Hj Wi). tauto.
    + specialize (Wi KW ltac:(discriminate) Si). specialize (Wj KA ltac:(discriminate) Sj).
      destruct (Hmut i j thi thj m Hij Hi Hj Wi). tauto.
    + specialize (Wi KA ltac:(discriminate) Si). specialize (Rj Sj).
      destruct (Hmut i j thi thj m Hij Hi Hj Wi). tauto.
    + specialize (Wi KA ltac:(discriminate) Si). specialize (Wj KW ltac:(discriminate) Sj).
      destruct (Hmut i j thi thj m Hij Hi Hj Wi). tauto.
  - (* confined *)
    assert (Li : t_lab thi = t).
    { destruct k1; cbn [access_ok] in Si; rewrite Px in Si; apply Nat.eqb_eq in Si; auto. }
    assert (Lj : t_lab thj = t).
    { destruct k2; cbn [access_ok] in Sj; rewrite Px in Sj; apply Nat.eqb_eq in Sj; auto. }
    apply Hij. apply (Huniq x t Px i j).
    + rewrite <- Li. exact (Hlab i thi Hi).
    + rewrite <- Lj. exact (Hlab j thj Hj).
  - (* handed over by spawn *)
    destruct (Hho x ip ic Px) as [Hne [Hoth Hpar]].
    assert (Hacc : forall th k rest, t_prog th = match k with KR => ARead x | KW => AWrite x | KA => AAtomic x end :: rest ->
                     existsb (accesses x) (t_prog th) = true).
    { intros th k rest ->. destruct k; cbn; rewrite N.eqb_refl; reflexivity. }
    assert (Hin : forall n th k rest, nth_error (s_pool s) n = Some th ->
                    t_prog th = match k with KR => ARead x | KW => AWrite x | KA => AAtomic x end :: rest -> n = ip \/ n = ic).
    { intros n th k rest Hn Hp. destruct (Nat.eq_dec n ip) as [|Hnp]; [left; auto|].
      destruct (Nat.eq_dec n ic) as [|Hnc]; [right; auto|].
      destruct (Hoth n th Hn Hnp) as [_ B]. rewrite (Hacc th k rest Hp) in B. specialize (B Hnc). discriminate. }
    assert (Hrun : forall th y k, next_access th = Some (y, k) -> t_run th = true).
    { intros th y k. unfold next_access. destruct (t_run th); [reflexivity | discriminate]. }
    assert (Hbad : forall thp thc k rest, nth_error (s_pool s) ip = Some thp -> nth_error (s_pool s) ic = Some thc ->
                     t_run thc = true ->
                     t_prog thp = match k with KR => ARead x | KW => AWrite x | KA => AAtomic x end :: rest -> False).
    { intros thp thc k rest Hp Hcn Hr Hpp. specialize (Hpar thp Hp).
      unfold child_running in Hpar. rewrite Hcn, Hr, Hpp in Hpar. cbn [hs_ok] in Hpar.
      destruct k; cbn [accesses] in Hpar; rewrite N.eqb_refl in Hpar; discriminate. }
    destruct (Hin i thi k1 ri Hi Pi) as [Ei|Ei]; destruct (Hin j thj k2 rj Hj Pj) as [Ej|Ej]; subst; try congruence.
    + exact (Hbad thi thj k1 ri Hi Hj (Hrun _ _ _ Nj0) Pi).
    + exact (Hbad thj thi k2 rj Hj Hi (Hrun _ _ _ Ni0) Pj).
  - (* read-only *)
    destruct k1, k2; try discriminate Hc; cbn [access_ok] in Si, Sj; rewrite Px in *; discriminate.
  - (* atomic *)
    destruct k1, k2; try discriminate Hc; cbn [access_ok] in Si, Sj; rewrite Px in *; discriminate.
  - destruct k1; cbn [access_ok] in Si; rewrite Px in Si; discriminate.
Qed.

(* ---------------------------------------------------------------- the theorem *)
Lemma nth_error_map_init ths i th :
  nth_error (map (fun '(run, lab, p) => init_thread run lab p) ths) i = Some th ->
  exists run lab p, nth_error ths i = Some (run, lab, p) /\ th = init_thread run lab p.
Proof.
  rewrite nth_error_map. destruct (nth_error ths i) as [[[run lab] p]|]; cbn; [|discriminate].
  intros H. inversion H. eauto.
Qed.

Lemma init_invs P ths : well_locked P ths ->
  scan_inv P (init_state ths) /\ mutex_inv (init_state ths) /\ label_inv (labels_of ths) (init_state ths) /\
  handoff_inv P (init_state ths).
Proof.
  intros [Hscan [_ Hho]]. split; [|split; [|split]]; [| | |intros x ip ic Hp; apply handoff_init; eauto].
  - intros i th Hi. cbn [init_state s_pool] in Hi. apply nth_error_map_init in Hi.
    destruct Hi as [run [lab [p [Hn ->]]]]. cbn. apply (Hscan run lab p). eapply nth_error_In; eauto.
  - intros i j thi thj m _ Hi _ Hm. cbn [init_state s_pool] in Hi. apply nth_error_map_init in Hi.
    destruct Hi as [? [? [? [_ ->]]]]. cbn in Hm. contradiction.
  - intros i th Hi. cbn [init_state s_pool] in Hi. apply nth_error_map_init in Hi.
    destruct Hi as [run [lab [p [Hn ->]]]]. unfold labels_of. rewrite nth_error_map, Hn. reflexivity.
Qed.

Lemma reachable_invs P ths s : well_locked P ths -> reachable (init_state ths) s ->
  scan_inv P s /\ mutex_inv s /\ label_inv (labels_of ths) s /\ handoff_inv P s.
Proof.
  intros Hwl Hr. induction Hr as [|s i s' Hr IH Hst].
  - apply init_invs. exact Hwl.
  - destruct IH as [A [B [C D]]]. split; [|split; [|split]].
    + eapply scan_inv_step; eauto.
    + eapply mutex_inv_step; eauto.
    + eapply label_inv_step; eauto.
    + eapply handoff_inv_step; eauto.
Qed.

(* mutual exclusion in every reachable state of every interleaving *)
Theorem mutual_exclusion P ths s : well_locked P ths -> reachable (init_state ths) s -> mutex_inv s.
Proof. intros A B. apply (reachable_invs P ths s A B). Qed.

(* LOCKSET SOUNDNESS: any number of threads, any programs, any interleaving, any length *)
Theorem lockset_sound P ths : well_locked P ths -> forall s, reachable (init_state ths) s -> ~ race s.
Proof.
  intros Hwl s Hr. destruct (reachable_invs P ths s Hwl Hr) as [A [B [C D]]].
  eapply no_race_inv; eauto. destruct Hwl as [_ [U _]]. exact U.
Qed.

(* ================================================================ access tables *)
Lemma In_removeN_intro m x l : In x l -> x <> m -> In x (removeN m l).
Proof.
  induction l as [|a l IH]; cbn [removeN In]; [tauto|].
  intros [->|H] Hne.
  - destruct (N.eqb m x) eqn:E; [apply N.eqb_eq in E; congruence | left; reflexivity].
  - destruct (N.eqb m a); [auto | right; auto].
Qed.

Lemma removeN_not_In m l : ~ In m (removeN m l).
Proof.
  induction l as [|a l IH]; cbn [removeN]; [tauto|].
  destruct (N.eqb m a) eqn:E; [exact IH|]. cbn [In]. intros [->|H]; [rewrite N.eqb_refl in E; discriminate | tauto].
Qed.

Lemma w_after_incl a w w' : incl w w' -> incl (w_after a w) (w_after a w').
Proof.
  intros H. destruct a; cbn [w_after]; auto.
  - intros x [->|Hx]; [left; reflexivity | right; auto].
  - intros x Hx. destruct (N.eq_dec x m) as [->|Hne]; [exfalso; eapply removeN_not_In; eauto|].
    apply In_removeN_intro; [apply H; eapply In_removeN; eauto | exact Hne].
Qed.

Lemma r_after_incl a r r' : incl r r' -> incl (r_after a r) (r_after a r').
Proof.
  intros H. destruct a; cbn [r_after]; auto.
  - intros x [->|Hx]; [left; reflexivity | right; auto].
  - intros x Hx. destruct (N.eq_dec x m) as [->|Hne]; [exfalso; eapply removeN_not_In; eauto|].
    apply In_removeN_intro; [apply H; eapply In_removeN; eauto | exact Hne].
Qed.

Lemma memN_incl m l l' : incl l l' -> memN m l = true -> memN m l' = true.
Proof. intros H. rewrite !memN_In. auto. Qed.

Lemma access_ok_mono P lab w r w' r' a : incl w w' -> incl r r' ->
  access_ok P lab w r a = true -> access_ok P lab w' r' a = true.
Proof.
  intros Hw Hr. destruct a; cbn [access_ok]; auto; destruct (P x) as [[m|t|ip ic| |]|]; auto.
  - intros H. apply orb_true_iff in H. apply orb_true_iff.
    destruct H; [left | right]; eapply memN_incl; eauto.
  - apply memN_incl; auto.
  - apply memN_incl; auto.
Qed.

(* holding more never hurts *)
Lemma scan_mono P lab p : forall w r w' r', incl w w' -> incl r r' ->
  scan P lab w r p = true -> scan P lab w' r' p = true.
Proof.
  induction p as [|a p IH]; intros w r w' r' Hw Hr; cbn [scan]; [auto|].
  intros H. apply andb_true_iff in H. destruct H as [H1 H2]. apply andb_true_iff. split.
  - eapply access_ok_mono; eauto.
  - eapply IH; [| |exact H2]; [apply w_after_incl | apply r_after_incl]; auto.
Qed.

Lemma scan_app P lab p q : forall w r,
  scan P lab w r p = true -> scan P lab [] [] q = true -> scan P lab w r (p ++ q) = true.
Proof.
  induction p as [|a p IH]; intros w r Hp Hq; cbn [app].
  - eapply scan_mono; [| |exact Hq]; intros x [].
  - cbn [scan] in *. apply andb_true_iff in Hp. destruct Hp as [H1 H2]. apply andb_true_iff. split; auto.
Qed.

Definition is_sync (a : action) : bool :=
  match a with ARead _ | AWrite _ | AAtomic _ => false | _ => true end.

Lemma access_ok_sync P lab w r a : is_sync a = true -> access_ok P lab w r a = true.
Proof. destruct a; cbn; auto; discriminate. Qed.

Definition ws_after (p : list action) (w : list N) : list N := fold_left (fun w a => w_after a w) p w.
Definition rs_after (p : list action) (r : list N) : list N := fold_left (fun r a => r_after a r) p r.

Lemma scan_sync_prefix P lab p q : forallb is_sync p = true -> forall w r,
  scan P lab w r (p ++ q) = scan P lab (ws_after p w) (rs_after p r) q.
Proof.
  induction p as [|a p IH]; intros Hs w r; cbn [app ws_after rs_after fold_left]; [reflexivity|].
  cbn [forallb] in Hs. apply andb_true_iff in Hs. destruct Hs as [Ha Hp].
  cbn [scan]. rewrite access_ok_sync by exact Ha. cbn [andb]. apply IH. exact Hp.
Qed.

Lemma scan_sync P lab p : forallb is_sync p = true -> forall w r, scan P lab w r p = true.
Proof.
  intros Hs w r. rewrite <- (app_nil_r p). rewrite scan_sync_prefix by exact Hs. reflexivity.
Qed.

Lemma sync_map_lock l : forallb is_sync (map ALock l) = true.
Proof. induction l; cbn; auto. Qed.
Lemma sync_map_rlock l : forallb is_sync (map ARLock l) = true.
Proof. induction l; cbn; auto. Qed.
Lemma sync_map_unlock l : forallb is_sync (map AUnlock l) = true.
Proof. induction l; cbn; auto. Qed.
Lemma sync_map_runlock l : forallb is_sync (map ARUnlock l) = true.
Proof. induction l; cbn; auto. Qed.

Lemma ws_after_locks l : forall w, incl l (ws_after (map ALock l) w) /\ incl w (ws_after (map ALock l) w).
Proof.
  induction l as [|m l IH]; intros w; cbn [map ws_after fold_left w_after].
  - split; [intros x [] | apply incl_refl].
  - destruct (IH (m :: w)) as [A B]. unfold ws_after in A, B. split.
    + intros x [->|Hx]; [apply B; left; reflexivity | apply A; exact Hx].
    + intros x Hx. apply B. right. exact Hx.
Qed.

Lemma rs_after_rlocks l : forall r, incl l (rs_after (map ARLock l) r) /\ incl r (rs_after (map ARLock l) r).
Proof.
  induction l as [|m l IH]; intros r; cbn [map rs_after fold_left r_after].
  - split; [intros x [] | apply incl_refl].
  - destruct (IH (m :: r)) as [A B]. unfold rs_after in A, B. split.
    + intros x [->|Hx]; [apply B; left; reflexivity | apply A; exact Hx].
    + intros x Hx. apply B. right. exact Hx.
Qed.

Lemma ws_after_rlocks l w : ws_after (map ARLock l) w = w.
Proof. revert w. induction l; intros w; cbn; auto. Qed.
Lemma rs_after_locks l r : rs_after (map ALock l) r = r.
Proof. revert r. induction l; intros r; cbn; auto. Qed.

(* the code around one site passes the static check when the site is covered by the protection *)
Lemma scan_block P e : live e = true -> entry_ok P e = true -> scan P (a_role e) [] [] (block e) = true.
Proof.
  intros Hl He. unfold entry_ok in He. rewrite Hl in He. cbn [negb orb] in He.
  unfold block.
  rewrite scan_sync_prefix by apply sync_map_lock.
  rewrite scan_sync_prefix by apply sync_map_rlock.
  cbn [app scan]. apply andb_true_iff. split.
  - eapply access_ok_mono; [| |exact He].
    + rewrite ws_after_rlocks. apply (ws_after_locks (a_w e) []).
    + apply (rs_after_rlocks (a_r e)).
  - apply scan_sync. rewrite forallb_app. rewrite sync_map_runlock, sync_map_unlock. reflexivity.
Qed.

Lemma scan_from_blocks P t r p :
  (forall e, In e t -> entry_ok P e = true) -> from_blocks t r p -> scan P r [] [] p = true.
Proof.
  intros Hall Hfb. induction Hfb as [|e p Hin Hl Hr Hfb IH]; [reflexivity|].
  apply scan_app; [|exact IH]. subst r. apply scan_block; auto.
Qed.

Lemma prot_of_no_handoff single t x ip ic : prot_of single t x <> Some (PHandoff ip ic).
Proof.
  unfold prot_of. destruct (entries_of t x) as [|e0 es]; [discriminate|].
  destruct (forallb _ (e0 :: es)); [discriminate|].
  destruct (forallb _ (e0 :: es)); [discriminate|].
  destruct (common_lock (e0 :: es)); [discriminate|].
  destruct (single (a_role e0) && forallb _ (e0 :: es)); discriminate.
Qed.

Lemma prot_of_confined_single single t x lab :
  prot_of single t x = Some (PConfined lab) -> single lab = true.
Proof.
  unfold prot_of. destruct (entries_of t x) as [|e0 es]; [discriminate|].
  destruct (forallb _ (e0 :: es)); [discriminate|].
  destruct (forallb _ (e0 :: es)); [discriminate|].
  destruct (common_lock (e0 :: es)); [discriminate|].
  destruct (single (a_role e0)) eqn:E; cbn [andb]; [|discriminate].
  destruct (forallb _ (e0 :: es)); [|discriminate].
  intros H. inversion H; subst. exact E.
Qed.

(* TABLE SOUNDNESS: if the table passes the decidable check, every pool made of the table's sites
   (any number of foreground threads, any order and repetition of sites) follows the discipline *)
Theorem table_well_locked single t ths :
  locktable_ok single t = true -> conforms single t ths -> well_locked (prot_of single t) ths.
Proof.
  intros Hok [Hfb Hsingle]. unfold locktable_ok in Hok. rewrite forallb_forall in Hok. split.
  - intros run lab p Hin. eapply scan_from_blocks; eauto.
  - split.
    + intros x lab Hp. apply Hsingle. eapply prot_of_confined_single; eauto.
    + intros x ip ic Hp. exfalso. eapply prot_of_no_handoff; eauto.
Qed.

Theorem table_sound single t ths :
  locktable_ok single t = true -> conforms single t ths ->
  forall s, reachable (init_state ths) s -> ~ race s.
Proof.
  intros Hok Hc. apply (lockset_sound (prot_of single t)). apply table_well_locked; auto.
Qed.

(* ---------------------------------------------------------------- the canonical program *)
Lemma from_blocks_flat_map t r l :
  (forall e, In e l -> In e t /\ live e = true /\ a_role e = r) -> from_blocks t r (flat_map block l).
Proof.
  induction l as [|e l IH]; intros H; cbn [flat_map]; [constructor|].
  destruct (H e (or_introl eq_refl)) as [A [B C]].
  constructor; auto. apply IH. intros e' He'. apply H. right. exact He'.
Qed.

Lemma labels_program_of t : labels_of (program_of t) = seq 1 (nroles t - 1).
Proof.
  unfold labels_of, program_of. rewrite map_map. cbn. apply map_id.
Qed.

Lemma program_of_conforms t : conforms (fun _ => true) t (program_of t).
Proof.
  split.
  - intros run lab p Hin. unfold program_of in Hin. apply in_map_iff in Hin.
    destruct Hin as [r [Heq _]]. inversion Heq; subst. unfold prog_of_role.
    apply from_blocks_flat_map. intros e He. apply filter_In in He. destruct He as [A B].
    apply andb_true_iff in B. destruct B as [B1 B2]. apply Nat.eqb_eq in B2. auto.
  - intros r _ i j Hi Hj. rewrite labels_program_of in Hi, Hj.
    assert (Li : i < nroles t - 1).
    { rewrite <- (seq_length (nroles t - 1) 1). apply nth_error_Some. congruence. }
    assert (Lj : j < nroles t - 1).
    { rewrite <- (seq_length (nroles t - 1) 1). apply nth_error_Some. congruence. }
    rewrite (nth_error_nth' _ 0) in Hi by (rewrite seq_length; exact Li).
    rewrite (nth_error_nth' _ 0) in Hj by (rewrite seq_length; exact Lj).
    rewrite seq_nth in Hi, Hj by assumption. inversion Hi. inversion Hj. lia.
Qed.

Theorem program_of_well_locked t :
  locktable_ok (fun _ => true) t = true -> well_locked (prot_of (fun _ => true) t) (program_of t).
Proof. intros H. apply table_well_locked; [exact H | apply program_of_conforms]. Qed.

Theorem program_of_race_free t :
  locktable_ok (fun _ => true) t = true ->
  forall s, reachable (init_state (program_of t)) s -> ~ race s.
Proof. intros H. apply (table_sound (fun _ => true) t); [exact H | apply program_of_conforms]. Qed.
