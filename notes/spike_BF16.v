From Coq Require Import NArith List Lia ZArith Bool.
From Coq Require Import ZifyN ZifyBool.
Ltac Zify.zify_post_hook ::= Z.div_mod_to_equations.
Open Scope N_scope.

(* Model: transcription of Float32ToBFloat16 (with the NaN branch of the planned fix) *)
Definition is_nan32 (bits : N) : bool := 0x7F800000 <? N.land bits 0x7FFFFFFF.
Definition bf16_round (bits : N) : N :=
  let b :=
    if negb (N.land bits 0x8000 =? 0) then
      if negb (N.land bits 0x7FFF =? 0) then bits + 0x8000
      else if negb (N.land bits 0x10000 =? 0) then bits + 0x8000 else bits
    else bits in
  N.shiftr (b mod 2^32) 16.

(* Spec: round the 32-bit pattern to the nearest multiple of 2^16, ties to even quotient *)
Definition rne16 (x : N) : N :=
  let q := x / 65536 in let r := x mod 65536 in
  if r <? 32768 then q else if 32768 <? r then q + 1 else if N.even q then q else q + 1.

Lemma land_ones' x k : N.land x (2^k - 1) = x mod 2^k.
Proof. replace (2^k - 1) with (N.ones k). apply N.land_ones. rewrite N.ones_equiv. lia. Qed.

Lemma tb x k : N.testbit x k = N.odd (x / 2^k).
Proof. rewrite <- N.shiftr_div_pow2, <- N.bit0_odd, N.shiftr_spec by lia. reflexivity. Qed.

Lemma bit_test x k : (N.land x (2^k) =? 0) = N.even (x / 2^k).
Proof.
  rewrite <- N.negb_odd, <- tb.
  destruct (N.testbit x k) eqn:T; cbn [negb].
  - assert (H : N.land x (2^k) = 2^k).
    { apply N.bits_inj; intro n. rewrite N.land_spec.
      destruct (N.eq_dec n k) as [->|Hn].
      - rewrite T, N.pow2_bits_true. reflexivity.
      - rewrite N.pow2_bits_false by auto. apply andb_false_r. }
    rewrite H. apply N.eqb_neq. apply N.pow_nonzero. lia.
  - assert (H : N.land x (2^k) = 0).
    { apply N.bits_inj; intro n. rewrite N.land_spec, N.bits_0.
      destruct (N.eq_dec n k) as [->|Hn].
      - rewrite T. reflexivity.
      - rewrite N.pow2_bits_false by auto. apply andb_false_r. }
    rewrite H. reflexivity.
Qed.

Theorem bf16_model_eq_spec : forall x, x < 2^32 -> x + 0x8000 < 2^32 -> bf16_round x = rne16 x.
Proof.
  intros x Hx Hno. unfold bf16_round, rne16.
  change 0x8000 with (2^15). change 0x10000 with (2^16). change 0x7FFF with (2^15 - 1).
  rewrite land_ones', !bit_test, N.shiftr_div_pow2.
  change (2^16) with 65536 in *. change (2^15) with 32768 in *. change (2^32) with 4294967296 in *.
  destruct (N.even (x / 32768)) eqn:E1; cbn [negb].
  - rewrite N.mod_small by lia.
    assert (x mod 65536 <? 32768 = true).
    { apply N.ltb_lt. rewrite N.even_spec in E1. destruct E1 as [k Hk]. lia. }
    rewrite H. reflexivity.
  - assert (Hodd : N.odd (x / 32768) = true) by (rewrite <- N.negb_even, E1; reflexivity).
    apply N.odd_spec in Hodd. destruct Hodd as [k Hk].
    assert (Hr : 32768 <= x mod 65536) by lia.
    destruct (x mod 32768 =? 0) eqn:E2; cbn [negb].
    + apply N.eqb_eq in E2.
      assert (x mod 65536 = 32768) by lia.
      destruct (N.even (x / 65536)) eqn:E3; cbn [negb].
      * rewrite N.mod_small by lia.
        replace (x mod 65536 <? 32768) with false by (symmetry; apply N.ltb_ge; lia).
        replace (32768 <? x mod 65536) with false by (symmetry; apply N.ltb_ge; lia). reflexivity.
      * rewrite N.mod_small by lia.
        replace (x mod 65536 <? 32768) with false by (symmetry; apply N.ltb_ge; lia).
        replace (32768 <? x mod 65536) with false by (symmetry; apply N.ltb_ge; lia). lia.
    + apply N.eqb_neq in E2. rewrite N.mod_small by lia.
      replace (x mod 65536 <? 32768) with false by (symmetry; apply N.ltb_ge; lia).
      replace (32768 <? x mod 65536) with true by (symmetry; apply N.ltb_lt; lia). lia.
Qed.
Print Assumptions bf16_model_eq_spec.
