import sys, json, time
sys.path.insert(0, '/work/c01/tools'); sys.path.insert(0, '/work/c01/tools/props')
import vlib
H = vlib.build_harness()
for n in (65535, 65536, 65537, 70000):
    data = bytes((i % 251) + 1 for i in range(n))
    case = {"sb": 2, "ops": [{"op": "mkds", "path": "/m", "dtype": "uint8", "dims": [n], "chunk": [1]}, {"op": "write", "path": "/m", "val": data.hex()}]}
    t=time.time()
    r = vlib.run_harness(H, "hist", [case])[0]
    s = json.dumps(r)
    print(n, round(time.time()-t,1), s[:300], "...", len(s))
    json.dump(r, open('/work/c01/build/big_%d.json' % n, 'w'))
